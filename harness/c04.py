"""C04 -- Generator-side verifier state is a faithful simulation of the real machine.

proof stage : coq/Props/C04.v (forward simulation [sim] per call and [simulation_module] per history,
              relation R = element-wise equality up to symbol numbering on memory, claims and the stack
              with the publish residues erased; load_index_correct; refutation witnesses for D8 and for
              every condition of the boundary [wf_call])
tie stage   : random three-phase histories (axioms/claims/proofs as proof.py produces them, interleaved
              with random pattern construction, rules, instantiate with any key order, save/load/pop,
              publishes); after EVERY call: Python tracker == model tracker, bytes == model bytes,
              Rust dump of the three files so far == model [exec] of them
oracle      : implementation only: Rust dump of the files so far vs the Python tracker (memory, claims in
              the proof phase, stack) after every call; divergences are signed by call site and by the
              boundary condition the model names for that call
"""
from __future__ import annotations

import glob
import json
import os

import common as C
import interp_common as IC
import interp_gen as G

CID = 'C04'
CORPUS = os.path.join(C.VERIF, 'harness', 'corpus', CID)

RULE = ('a case is one call of one history (state compared after it on three sides); distinct = distinct '
        '(history, call index); non-trivial = the call is a rule, substitution, instantiate, save/load/pop or '
        'publish, was accepted by the tracker, and the three-way comparison was made')

WF_NAME = {0: 'inside-boundary', 1: 'D8:residue-read', 2: 'D9a:mu-nonpositive', 3: 'D9e:metavar-illformed',
           4: 'D9b:esubst-illformed', 5: 'D9b:ssubst-illformed', 6: 'D9cd:instantiate-differs',
           7: 'D16:claims-argument-differs'}
TRIVIAL = {'ev', 'sv', 'sy', 'mv', 'ic', 'if'}
PUBLISH = {'pa': 'publish_axiom', 'pc': 'publish_claim', 'pp': 'publish_proof'}


def gen_cases(rng, n):
    cases = []
    for i in range(n):
        cfg = G.Cfg(max_id=rng.choice([3, 4, 6]), syms=rng.choice([2, 5, 9]), big_ids=False,
                    constrained=rng.choice([0.05, 0.2, 0.4]), subst=rng.choice([0.03, 0.1, 0.2]))
        hg = G.HistGen(rng, cfg, notation=rng.choice([0, 0.15, 0.4]), wrong=rng.choice([0, 0, 0.01]),
                       wild=rng.choice([0, 0.03, 0.1]))
        claims, calls, _ = hg.module_history(rng.randrange(0, 4), rng.choice([0, 1, 2, 2, 3, 4]), rng.choice([0.1, 0.3, 0.5]),
                                             permute=rng.choice([0, 0, 0.5, 1.0]), repeat_ax=rng.choice([0, 0.3, 0.6]),
                                             bad_inst=rng.choice([0, 0, 0.1, 0.3]), via_pattern=rng.choice([0, 0.3, 0.7]),
                                             many_syms=rng.choice([0] * 24 + [130, 200]))
        cases.append(dict(claims=claims, calls=calls))
    return cases


def split_terms(s):
    return s.split(',') if s else []


def ren_term(t, f):
    return t[0] + G.show(IC.rename(G.dec(t[1:]), f))


def next_marks(marks, name, old_len, new_len):
    """residue marks (top first) after a call, from the stack effect only"""
    if name in ('ic', 'if'):
        return []
    if name in PUBLISH:
        return ([True] + marks[1:]) if marks else marks
    if name == 'sa':
        return marks
    if name == 'po':
        return marks[1:]
    pops = old_len + 1 - new_len
    return [False] + marks[pops:]


def run(tier, seed):
    R = C.Report(CID, tier, seed)
    rng = C.rng_for(seed, CID)
    n = 700 if tier == 'quick' else 12000

    P = IC.proof_stage_with_translation(R)
    proof_broken = not P['ok']
    if proof_broken:
        R.notes.append('proof stage: ' + P['log'][-1500:])

    ok, log, exe = IC.build_model()
    rs, rerr = IC.build_rust()
    mismatches = []
    oracle_fail = []
    if not ok:
        mismatches.append(('build-model', log[-800:], ''))
        exe = None
    if rs is None:
        mismatches.append(('build-rust', rerr[-800:], ''))

    cases = gen_cases(rng, n)
    # corpus histories first
    for path in sorted(glob.glob(os.path.join(CORPUS, '*.json'))):
        w = json.load(open(path))
        cases.insert(0, dict(claims=[G.dec(c) for c in w.get('claims', [])], calls=w['calls'], corpus=os.path.basename(path),
                             expect_signature=w.get('expect_signature')))
    lines = [f'TRACE G {IC.claims_txt(c["claims"])} {" ".join(c["calls"])}'.rstrip() for c in cases]
    impl = IC.run_impl(lines)
    mlines = []
    for c, line, ans in zip(cases, lines, impl):
        body, x, kind = IC.split_impl(ans)
        c['impl'], c['exc'] = body, kind
        c['x'] = x
        if x is None or ans.startswith(('BAD', 'CRASH')):
            mismatches.append(('runner', line[:300], ans[:300]))
            mlines.append('SER G - ')
            c['x'] = None
        else:
            mlines.append(f'TRACE G {IC.claims_txt(c["claims"])} {x}'.rstrip())
    model = IC.run_model(exe, mlines) if exe else ['<nomodel>'] * len(mlines)

    # Rust requests: one per accepted call, built from the IMPLEMENTATION's answer alone
    rlines, rmeta = [], []
    for ci, (c, mans) in enumerate(zip(cases, model)):
        c['ri'] = None
        if c['x'] is None:
            continue
        hi = IC.parse_ser(c['impl'])
        ri = IC.parse_records(c['impl'])
        if hi is None or any(a is None for a in ri):
            mismatches.append(('runner-output', lines[ci][:500], c['impl'][:300]))
            continue
        hm = IC.parse_ser(mans)
        rm = IC.parse_records(mans) if hm else []
        c['ri'], c['rm'], c['hi'], c['hm'] = ri, rm, hi, hm
        if hm is None or hi['head'] != hm['head']:
            mismatches.append(('ser', lines[ci][:500], f'impl={c["impl"][:300]} model={mans[:300]}'))
        files = {'G': '', 'C': '', 'P': ''}
        ph = 'G'
        full = {'G': '' if hi['G'] == '-' else hi['G'], 'C': '' if hi['C'] == '-' else hi['C'],
                'P': '' if hi['P'] == '-' else hi['P']}
        off = {'G': 0, 'C': 0, 'P': 0}
        for k, a in enumerate(ri):
            # bytes of call k went to the sink of the phase BEFORE the call
            files[ph] = full[ph][:2 * (off[ph] + a['n'])]
            off[ph] += a['n']
            ph = a['phase']
            rlines.append(f'X {ph} {files["G"] or "-"} {files["C"] or "-"} {files["P"] or "-"}')
            rmeta.append((ci, k))
    rout = C.run_lines_parallel(rs, rlines) if rs else ['<norust>'] * len(rlines)
    rust = {}
    rreq = {}
    for (ci, k), o, req in zip(rmeta, rout, rlines):
        rust[(ci, k)] = o
        rreq[(ci, k)] = req

    n_div = {}
    for ci, c in enumerate(cases):
        if c.get('ri') is None:
            continue
        ri, rm, hi = c['ri'], c['rm'], c['hi']
        xc = c['x'].split()
        names = [IC.call_name(x) for x in xc]
        f = IC.numbering([t for t in hi['tbl'] if t.lstrip('-').isdigit()])
        if hi['tbl'] and hi['tbl'][0].startswith('BROKEN'):
            oracle_fail.append(('symbol-renumbered', 'the serialiser wrote one symbol with two different numbers (or skipped numbers)',
                                dict(history=lines[ci], observed=hi['tbl'][0])))
        marks = []
        old_len = 0
        diverged = False
        tie_ok = c['hm'] is not None and hi['head'] == c['hm']['head']
        prefix_ok = True          # model and implementation agreed on every earlier call of this history
        sig = None
        for k, a in enumerate(ri):
            name = names[k]
            key = (lines[ci], k)
            b = rm[k] if k < len(rm) else None
            # --- tie A: Python tracker vs model tracker, bytes
            if prefix_ok and (b is None or (a['tracker'], a['n']) != (b['tracker'], b['n'])):
                prefix_ok = False
                mismatches.append(('tracker', f'{lines[ci][:400]} @call {k} {c["x"].split()[k]}',
                                   f'impl={a["tracker"][:200]} n={a["n"]} model=' + (f'{b["tracker"][:200]} n={b["n"]}' if b else 'none')))
                R.case(key, True, 'tracker-MISMATCH')
            ro = rust.get((ci, k), '<norust>')
            # --- tie B: Rust vs the checker model on the same files (only while the bytes are the same)
            if prefix_ok and tie_ok and ro != b['mach']:
                mismatches.append(('machine', rreq[(ci, k)][:300], f'rust={ro[:200]} model={b["mach"][:200]}'))
                R.case(key, True, 'machine-MISMATCH')
                prefix_ok = False
            # --- oracle (implementation only): Rust state vs Python tracker
            stack = split_terms(a['S'])
            marks = next_marks(marks, name, old_len, len(stack))
            old_len = len(stack)
            if len(marks) != len(stack):
                marks = (marks + [False] * len(stack))[:len(stack)]
            want_mem = ','.join(ren_term(t, f) for t in split_terms(a['M']))
            live = [t for t, m in zip(stack, marks) if not m]
            want_stack = ','.join(ren_term(t, f) for t in live)
            raw_stack = ','.join(ren_term(t, f) for t in stack)
            want_claims = ','.join(G.show(IC.rename(G.dec(t), f)) for t in split_terms(a['Cl'])) if a['phase'] == 'P' else None
            got = IC.HEADLESS.match(ro) if ro != 'REJECT' else None
            wcode = b['w'] if (b is not None and prefix_ok) else None
            nontrivial = name not in TRIVIAL

            def signed(kind):
                # outside the boundary of the simulation theorem the condition the model names IS the
                # call-site class (D8 residue read, D9a non-positive mu, ...); inside it (or when the model
                # has lost track) a divergence is signed by what differs and where
                if wcode:
                    return WF_NAME.get(wcode, f'wf{wcode}')
                return f'{kind}:{name}:' + ('inside-boundary' if wcode == 0 else 'boundary-unknown')
            if ro == 'REJECT':
                sig = signed('checker-rejects')
                diverged = True
            elif got is None:
                mismatches.append(('rust-output', rreq[(ci, k)][:300], ro[:200]))
                break
            else:
                gs, gm, gc = got.group(1), got.group(2), got.group(3)
                sig = None
                if name in ('in', 'ip') and stack:
                    # the rule as requested by the caller: conclusion.instantiate(delta) (harness-side port)
                    fx = xc[k].split(':')
                    dl = {int(fx[i]): G.dec(fx[i + 1]) for i in range(2, len(fx), 2)}
                    want_top = ('T' if name == 'in' else 'P') + G.show(G.py_inst(G.dec(fx[1]), dl))
                    if stack[0] != want_top:
                        sig = f'tracker-term-is-not-the-requested-instance:{name}'
                        oracle_fail.append((sig, 'the term the tracker holds after instantiate is not pattern.instantiate(delta)',
                                            dict(history=lines[ci], expanded_history=' '.join(xc[:k + 1]), call_index=k, call=xc[k], expanded_call=xc[k],
                                                 tracker=a['tracker'], requested_instance=want_top, checker=ro)))
                        n_div[sig] = n_div.get(sig, 0) + 1
                        sig = None
                if gm != want_mem:
                    sig = signed('memory-differs')
                elif want_claims is not None and gc != want_claims:
                    sig = signed('claims-differ')
                elif gs != want_stack:
                    sig = signed('stack-differs')
                elif name in PUBLISH and gs != raw_stack:
                    # D8, the direct observation: the tracker keeps what the checker popped
                    sig_d8 = f'D8:{PUBLISH[name]}:not-popped'
                    n_div[sig_d8] = n_div.get(sig_d8, 0) + 1
                    oracle_fail.append((sig_d8, f'StatefulInterpreter.{PUBLISH[name]} does not pop; the checker\'s Publish does',
                                        dict(history=lines[ci], call_index=k, call=xc[k], tracker=a['tracker'], checker=ro)))
                if sig:
                    diverged = True
            R.case(key, nontrivial, f'{name}:' + ('diverged' if diverged else 'agree'))
            if diverged:
                n_div[sig] = n_div.get(sig, 0) + 1
                oracle_fail.append((sig, 'checker state on the bytes emitted so far differs from the generator-side tracker',
                                    dict(history=lines[ci], expanded_history=' '.join(xc[:k + 1]), call_index=k, call=xc[k], expanded_call=xc[k],
                                         tracker=a['tracker'], residue_marks=''.join('1' if m else '0' for m in marks),
                                         checker=ro, model_wf_code=wcode, corpus=c.get('corpus'))))
                break
        if c.get('corpus') and c.get('expect_signature') and sig != c['expect_signature'] \
                and not any(o[0] == c['expect_signature'] and o[2].get('history') == lines[ci] for o in oracle_fail):
            R.notes.append(f'corpus witness {c["corpus"]} no longer shows {c["expect_signature"]} (got {sig})')
        if not diverged and hi['ok']:
            R.sample(lines[ci][:300])
        kind = 'history-' + ('accepted' if hi['ok'] else 'rejected:' + c['exc']) + ('-diverged' if diverged else '')
        R.hist[kind] = R.hist.get(kind, 0) + 1
        R.hist['len-%d' % (10 * (len(ri) // 10))] = R.hist.get('len-%d' % (10 * (len(ri) // 10)), 0) + 1
    for s, v in n_div.items():
        R.hist['divergence ' + s] = v

    seen = set()
    for sig, desc, replay in oracle_fail:
        if sig in seen:
            continue
        seen.add(sig)
        R.violation(sig, desc, replay)
    if proof_broken and not R.violations:
        R.violation('proof-broken', 'Coq proof stage failed',
                    {'no_failing_input_found': True, 'theorem_or_correspondence': f'Props/{CID}.v', 'log': P['log'][-3000:]})
    if mismatches and not R.violations:
        R.violation('correspondence-broken', 'model and implementation disagree',
                    {'no_failing_input_found': True,
                     'theorem_or_correspondence': 'correspondence stateful_step/emit vs Stateful/SerializingInterpreter, exec vs lib.rs',
                     'first_mismatches': mismatches[:5]})
    if mismatches:
        R.notes.append(f'{len(mismatches)} mismatches; first: {mismatches[0]}')
    R.coverage['rule'] = RULE
    return R.finish(level='proof', trusted_base=C.TRUSTED_COMMON + [
        IC.TRANSLATOR_TRUST,
        'harness/impl/interp_runner.py (request codec, full-expansion helper, symbol names str(n) <-> n)',
        'harness/rust/interp_harness.rs + interp_main.rs (dump only: runs execute_instructions on the three files, prints '
        'stack/memory/claims with a private pattern codec)',
        'ocaml/interp_driver.ml (request codec, printing)',
        'ML/Machine.v is the lead\'s checker model; its own tie to lib.rs is re-checked here on every emitted prefix',
    ])


def replay(path):
    d = json.load(open(path))
    rep = d.get('replay', d)
    print(json.dumps(d, indent=1)[:3000])
    hist = rep.get('history')
    if not hist and rep.get('calls'):
        hist = f'TRACE G {";".join(rep.get("claims", [])) or "-"} {" ".join(rep["calls"])}'
        rep = dict(rep, call_index=len(rep['calls']) - 1)
    if not hist:
        return 0
    k = rep.get('call_index', 0)
    f = hist.split()
    req = ' '.join(f[:3] + f[3:3 + k + 1])
    ans = IC.run_impl([req], chunks=1)[0]
    body, x, _ = IC.split_impl(ans)
    print('impl tracker after the call:', IC.parse_records(body)[-1]['tracker'] if IC.parse_records(body) else body[:300])
    hi = IC.parse_ser(body)
    rs, _ = IC.build_rust()
    if hi and rs:
        ph = IC.parse_records(body)[-1]['phase']
        print('checker on the files so far :', C.run_lines(rs, [f'X {ph} {hi["G"]} {hi["C"]} {hi["P"]}'])[0])
    return 0

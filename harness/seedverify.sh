#!/bin/bash
# usage: harness/seedverify.sh <seed dir with patch.diff demo.py meta.json> -> prints one line: <dir> clean=<rc> patched=<rc> tests=<summary>
d=$(readlink -f "$1")
tree=$(mktemp -d /tmp/seedverify.XXXX)
git -C /repo worktree add -q --detach "$tree" HEAD || exit 2
demo=$d/demo.py; [ -f "$demo" ] || demo=$d/demo.sh
run_demo() { if [[ "$demo" == *.py ]]; then timeout 900 /venv/bin/python "$demo" "$tree" >/dev/null 2>&1; else timeout 900 bash "$demo" "$tree" >/dev/null 2>&1; fi; echo $?; }
clean=$(run_demo)
if ! git -C "$tree" apply "$d/patch.diff" 2>/dev/null; then echo "$d APPLY-FAILED"; git -C /repo worktree remove --force "$tree"; exit 1; fi
patched=$(run_demo)
tests=$(cd "$tree" && timeout 1800 /venv/bin/python -m pytest -q -p no:cacheprovider --timeout=900 --continue-on-collection-errors generation/src/tests 2>&1 | tail -1)
echo "$d clean=$clean patched=$patched tests=[$tests]"
git -C /repo worktree remove --force "$tree"

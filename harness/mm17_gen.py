"""C17 generators: valid Metamath databases (tuple ASTs, see mm17_fmt) with real derivations
(nested blocks, $d, $e, compressed and normal proofs, multi-argument constructors, variables declared in
inner blocks, non-builtin typecodes, top-level $e), random text layouts, malformed token streams and
arbitrary (not necessarily well-formed) ASTs."""
from __future__ import annotations

import mm17_oracle as O

LETTERS = 'abcdefghijklmnopqrstuvwxyz'


def V(x):
    return ('M', x)


def Ap(c, *args):
    return ('A', c, tuple(args))


def term_vars(t, acc=None):
    acc = [] if acc is None else acc
    if t[0] == 'M':
        if t[1] not in acc:
            acc.append(t[1])
    else:
        for a in t[2]:
            term_vars(a, acc)
    return acc


def tsubst(t, sigma):
    if t[0] == 'M':
        return sigma.get(t[1], t)
    return ('A', t[1], tuple(tsubst(a, sigma) for a in t[2]))


def tmatch(pat, t, sigma):
    """one-way matching of pattern `pat` against `t` extending sigma (dict) or None"""
    if pat[0] == 'M':
        if pat[1] in sigma:
            return sigma if sigma[pat[1]] == t else None
        s = dict(sigma)
        s[pat[1]] = t
        return s
    if t[0] != 'A' or t[1] != pat[1] or len(t[2]) != len(pat[2]):
        return None
    for a, b in zip(pat[2], t[2]):
        sigma = tmatch(a, b, sigma)
        if sigma is None:
            return None
    return sigma


class DbGen:
    def __init__(self, rng, opts=None):
        self.rng = rng
        self.o = dict(inner_var_block=False, normal_proofs=0.08, top_essential=0.2, early_essential=0.15, spare_dv=0.3, restate_hyp=0.12, junk=0.15,
                      wff=0.35, nested_axiom_blocks=0.25, sugar=0.2, nested_only_const=0.3)
        if opts:
            self.o.update(opts)
        self.db = []
        self.info = dict(features=set())

    # ---- random terms over constructors
    def rterm(self, vars_, depth):
        r = self.rng
        if depth <= 0 or r.random() < 0.35:
            if vars_ and r.random() < 0.8:
                return V(r.choice(vars_))
            c0 = [c for c, n in self.cons if n == 0]
            if c0:
                return Ap(r.choice(c0))
            return V(r.choice(vars_))
        c, n = r.choice(self.cons)
        return ('A', c, tuple(self.rterm(vars_, depth - 1) for _ in range(n)))

    def build(self):
        r = self.rng
        o = self.o
        P = 'wff' if r.random() < o['wff'] else '#Pattern'
        T = '|-'
        self.P, self.T = P, T
        if P == 'wff':
            self.info['features'].add('nonbuiltin-typecode')
        nv = r.randint(2, 5)
        pv = [f'ph{i}' for i in range(nv)]
        self.pvars = pv
        pool = [('\\imp', 2), ('\\not', 1), ('\\bot', 0), ('\\ite', 3), ('\\and', 2), ('top', 0), ('\\app', 2)]
        r.shuffle(pool)
        self.cons = pool[:r.randint(2, 5)]
        if not any(n > 0 for _, n in self.cons):
            self.cons.append(('\\imp', 2))
        consts = [P, T, '(', ')'] + [c for c, _ in self.cons] + ['unused-c']
        extra_ty = None
        if r.random() < 0.4:
            extra_ty = r.choice(['#ElementVariable', '#Variable', 'set'])
            consts.append(extra_ty)
        sugar = r.random() < o['sugar']
        if sugar:
            consts += ['#Notation', '\\sug']
        nested_only = r.random() < o['nested_only_const']
        if nested_only:
            consts.append('\\nbox')
        r.shuffle(consts)
        db = self.db
        # $c in 1..3 statements
        k = r.randint(1, 3)
        cuts = sorted(r.sample(range(1, len(consts)), min(k - 1, len(consts) - 1))) if k > 1 else []
        prev = 0
        for c in cuts + [len(consts)]:
            if c > prev:
                db.append(('C', tuple(consts[prev:c])))
            prev = c
        evars = [f'x{i}' for i in range(r.randint(1, 2))] if extra_ty else []
        self.spare = 'zz' if r.random() < o['spare_dv'] else None     # typed, never used in a term: no slice needs it
        self.block_dvs = []
        allv = pv + evars + ([self.spare] if self.spare else [])
        decl = list(allv)
        r.shuffle(decl)
        inner = o['inner_var_block'] and len(decl) > 2
        if inner and decl[-1] == self.spare:
            decl.insert(0, decl.pop())
        inner_v = decl.pop() if inner else None
        if r.random() < 0.5 and len(decl) > 1:
            h = r.randint(1, len(decl) - 1)
            db.append(('V', tuple(decl[:h])))
            db.append(('V', tuple(decl[h:])))
        else:
            db.append(('V', tuple(decl)))
        forder = [v for v in allv if v != inner_v]
        if r.random() < 0.5:
            r.shuffle(forder)
        self.usable = [v for v in pv if v != inner_v]
        # hypothesis-order shapes: a top-level $e that PRECEDES a $f the later lemmas use
        top_e = r.random() < o['top_essential']
        late_v = None
        if top_e and len(self.usable) >= 3:
            late_v = self.usable.pop()            # its $f comes after the top-level $e `top-e`
            forder.remove(late_v)
        self.global_e_const = set()
        early_at = r.randrange(len(forder)) if r.random() < o['early_essential'] else None
        self.flabel = {}
        for k, v in enumerate(forder):
            if k == early_at:
                # variable-free, so it can sit anywhere among the $f statements and is proved by its own label
                self.info['features'].add('early-top-level-$e')
                db.append(('E', 'early-e', (Ap(T), Ap('unused-c'))))
                self.global_e_const.add('early-e')
            lab = f'{v}-is-{"pattern" if v in pv else "var"}'
            self.flabel[v] = lab
            db.append(('F', lab, P if (v in pv or v == self.spare) else extra_ty, v))
        if inner_v is not None:
            self.info['features'].add('inner-block-variable')
            lab = f'{inner_v}-is-pattern'
            blk = [('V', (inner_v,)), ('F', lab, P if inner_v in pv else extra_ty, inner_v)]
            if inner_v in pv:
                blk.append(('A', 'inner-ax', (Ap(T), V(inner_v))))
            db.append(('B', tuple(blk)))
            # the parser's accumulator is not scoped: after the block the token is still a metavariable
            db.append(('A', 'inner-use', (Ap(T), ('A', 'unused-c', (V(inner_v), V(self.usable[0]))))))
        # syntax axioms
        self.syn = {}
        for c, n in self.cons:
            lab = f'{c.strip(chr(92))}-is-pattern'
            params = r.sample(self.usable, n) if n <= len(self.usable) else None
            if params is None:
                params = [r.choice(self.usable) for _ in range(n)]
                if len(set(params)) < n:      # repeated parameter: not a usable constructor; drop arity
                    params = self.usable[:1] * 0
                    n = 0
            if n == 0:
                t = Ap(c)
                self.cons = [(c2, (0 if c2 == c else n2)) for c2, n2 in self.cons]
            else:
                t = ('A', c, tuple(V(p) for p in params))
            self.syn[c] = (lab, tuple(params[:n]))
            db.append(('A', lab, (Ap(P), t)))
        if sugar:
            self.info['features'].add('sugar')
            v0 = self.usable[0]
            db.append(('A', 'sug-is-pattern', (Ap(P), ('A', '\\sug', (V(v0),)))))
            self.syn['\\sug'] = ('sug-is-pattern', (v0,))
            body = self.rterm([v0], 1)
            db.append(('A', 'sug-is-sugar', (Ap('#Notation'), ('A', '\\sug', (V(v0),)), body)))
            self.cons.append(('\\sug', 1))
        # global $d
        self.gdv = set()
        if r.random() < 0.5 and len(self.usable) >= 2:
            for _ in range(r.randint(1, 2)):
                vs = r.sample(self.usable + [e for e in evars if e != inner_v], r.randint(2, min(3, len(self.usable))))
                db.append(('D', tuple(vs)))
                self.info['features'].add('global-$d')
        # logical axioms / rules
        self.nlab = 0
        self.asserts = []          # labels of |- assertions usable in derivations
        for _ in range(r.randint(2, 5)):
            self.add_axiom()
        if self.spare and self.block_dvs:
            # a top-level $d over THREE variables of which later slices need two: the rules with a block-level $d a b
            # can only be applied because of it
            a, b = r.choice(self.block_dvs)
            trio = [a, b, self.spare]
            r.shuffle(trio)
            db.append(('D', tuple(trio)))
            self.info['features'].add('global-$d-three-variables')
        if top_e:
            self.info['features'].add('top-level-$e')
            db.append(('E', 'top-e', (Ap(T), self.rterm(self.usable, 1))))
            if late_v is not None:
                self.info['features'].add('$f-after-top-level-$e')
                self.flabel[late_v] = f'{late_v}-is-pattern'
                db.append(('F', self.flabel[late_v], P, late_v))
                self.usable.append(late_v)
        ntheorems = r.randint(2, 6)
        nested_at = r.randrange(ntheorems) if nested_only else None
        for i in range(ntheorems):
            if i == nested_at:
                # a constant that occurs ONLY at block depth >= 2 of the lemma's dependency cone: two rules in doubly nested blocks introduce
                # and eliminate \nbox, no syntax axiom mentions it (it is never substituted for a variable), and the lemma's own statement
                # does not contain it -- the slice must still declare it
                self.info['features'].add('constant-only-in-nested-blocks')
                q = self.usable[0]
                out = self.rterm([q], 1)
                wrap = (lambda st: ('B', (('D', tuple(self.usable[:2])), ('B', st)))) if len(self.usable) >= 2 and r.random() < 0.5 \
                    else (lambda st: ('B', (('B', st),)))
                db.append(wrap((('E', 'nb1.0', (Ap(T), V(q))), ('A', 'nb1', (Ap(T), ('A', '\\nbox', (V(q),)))))))
                db.append(wrap((('E', 'nb2.0', (Ap(T), ('A', '\\nbox', (V(q),)))), ('A', 'nb2', (Ap(T), out)))))
                self.add_theorem(i, plan=('nb1', 'nb2'), plan_var=q)
            self.add_theorem(i)
            if r.random() < 0.3:
                self.add_axiom()
        if r.random() < o['junk']:
            self.info['features'].add('junk')
            j = r.choice(['empty-block', 'nested-empty', 'block-no-concl', 'const-in-block'])
            if j == 'empty-block':
                db.insert(r.randint(len(db) // 2, len(db)), ('B', ()))
            elif j == 'nested-empty':
                db.insert(r.randint(len(db) // 2, len(db)), ('B', (('A', 'nz', (Ap(T), V(self.usable[0]))), ('B', ()))))
            elif j == 'block-no-concl':
                db.insert(r.randint(len(db) // 2, len(db)), ('B', (('A', 'bz', (Ap(T), V(self.usable[0]))), ('E', 'bz.e', (Ap(T), V(self.usable[0]))))))
            else:
                db.insert(r.randint(len(db) // 2, len(db)), ('B', (('C', ('late-c',)),)))
        return tuple(db), self.info

    def fresh(self, base):
        self.nlab += 1
        return f'{base}{self.nlab}'

    def add_axiom(self):
        r = self.rng
        T = self.T
        lab = self.fresh('ax')
        kind = r.random()
        vs = self.usable
        bins = [c for c, n in self.cons if n == 2]
        if kind < 0.4:
            self.db.append(('A', lab, (Ap(T), self.rterm(vs, 2))))
        elif kind < 0.65 and bins and len(vs) >= 2:
            c = r.choice(bins)
            p, q = r.sample(vs, 2)
            ants = [('E', f'{lab}.0', (Ap(T), ('A', c, (V(p), V(q))))), ('E', f'{lab}.1', (Ap(T), V(p)))]
            if r.random() < 0.5:
                ants.reverse()
            self.db.append(('B', tuple(ants) + (('A', lab, (Ap(T), V(q))),)))
            self.info['features'].add('block-$e')
        else:
            ne = r.randint(1, 2)
            concl = self.rterm(vs, 2)
            cv = term_vars(concl) or vs[:1]
            ants = []
            if r.random() < 0.3 and len(vs) >= 2:
                d = r.sample(vs, 2)
                ants.append(('D', tuple(d)))
                self.block_dvs.append(tuple(d))
                self.info['features'].add('block-$d')
            for i in range(ne):
                ants.append(('E', f'{lab}.{i}', (Ap(T), self.rterm(cv if r.random() < 0.7 else vs, 1))))
            r.shuffle(ants)
            stmts = tuple(ants) + (('A', lab, (Ap(T), concl)),)
            if r.random() < self.o['nested_axiom_blocks']:
                # ${ $e ${ $e $a $} $}: the axiom is still the last statement of the worklist
                self.info['features'].add('nested-axiom-block')
                h = r.randint(0, len(ants))
                stmts = tuple(ants[:h]) + (('B', tuple(ants[h:]) + (('A', lab, (Ap(T), concl)),)),)
            self.db.append(('B', stmts))
            self.info['features'].add('block-$e')
        self.asserts.append(lab)

    # ---- derivations
    def frames(self):
        sc = O.walk(tuple(self.db), strict=False)
        return sc

    def syn_proof(self, t, sc):
        """proof tree of  P t"""
        if t[0] == 'M':
            return (self.flabel_all[t[1]], [])
        lab, params = self.syn[t[1]]
        sigma = dict(zip(params, t[2]))
        return self.apply(lab, sigma, {}, sc)

    def apply(self, lab, sigma, eproofs, sc):
        fr = sc.labels[lab][1]
        kids = []
        for (hl, kind, expr, var) in fr['mand']:
            if kind == 'f':
                kids.append(self.syn_proof(sigma.get(var, V(var)), sc))
            else:
                kids.append(eproofs[hl] if hl in eproofs or hl not in self.global_e_const else (hl, []))
        return (lab, kids)

    def add_theorem(self, idx, plan=None, plan_var=None):
        r = self.rng
        T = self.T
        lab = self.fresh('th')
        vs = self.usable
        # variables this theorem talks about (others may still appear as dummies)
        ants = []
        own_dv = []
        if plan:
            ants.append(('E', f'{lab}.0', (Ap(T), V(plan_var))))
        elif r.random() < 0.45:
            for i in range(r.randint(1, 2)):
                ants.append(('E', f'{lab}.{i}', (Ap(T), self.rterm(vs, 1))))
        if not plan and r.random() < 0.3 and len(vs) >= 2:
            own_dv = r.sample(vs, 2)
            ants.insert(r.randint(0, len(ants)), ('D', tuple(own_dv)))
        # temporary database to compute the scope inside the theorem's block
        tmp = tuple(self.db) + (('B', tuple(ants)),)
        scs = []

        def grab(stmts, sc):
            pass
        # walk with the block left open: emulate by walking db then the antecedents in a copied scope
        sc = O.walk(tuple(self.db), strict=False)
        inner = sc.copy_for_block()
        inner.labels = dict(sc.labels)
        for a in ants:
            if a[0] == 'E':
                e = O.flats(a[2])
                inner.hyps.append((a[1], 'e', e, None))
                inner.labels[a[1]] = ('hyp', e)
            else:
                for x in a[1]:
                    for y in a[1]:
                        if x != y:
                            inner.dvs.add(frozenset((x, y)))
        self.flabel_all = {h[3]: h[0] for h in inner.hyps if h[1] == 'f'}
        pool = []   # (term, prooftree)
        for h in inner.hyps:
            if h[1] == 'e':
                pool.append((self.unflat_hyp(h[0], ants), (h[0], [])))
        facts = [p for p in pool if p[0] is not None]
        derived = []
        if not plan and facts and r.random() < self.o['restate_hyp']:
            # proved from a mandatory hypothesis alone: the compressed proof has an EMPTY label list `( ) <letter>`
            derived.append(r.choice(facts))
            self.info['features'].add('empty-label-list')
        for forced in (plan or [None] * (0 if derived else r.randint(1, 4))):
            for _try in range(6):
                al = forced or r.choice(self.asserts)
                ent = sc.labels.get(al)
                if ent is None or ent[0] != 'assert':
                    continue
                fr = ent[1]
                st = self.stmt_terms(al)
                if st is None:
                    continue
                hyps_t, concl_t = st
                sigma = {}
                eproofs = {}
                ok = True
                for hl, ht in hyps_t:
                    cands = facts + derived
                    r.shuffle(cands)
                    m = None
                    for ft, fp in cands:
                        m = tmatch(ht, ft, sigma)
                        if m is not None:
                            sigma = m
                            eproofs[hl] = fp
                            break
                    if m is None:
                        ok = False
                        break
                if not ok:
                    continue
                for v in fr['vars']:
                    if v not in sigma:
                        sigma[v] = self.rterm(vs, 1) if not fr['dvs'] else V(r.choice(vs))
                # $d side conditions
                good = True
                for p in fr['dvs']:
                    x, y = tuple(p)
                    for a in term_vars(sigma.get(x, V(x))):
                        for b in term_vars(sigma.get(y, V(y))):
                            if a == b or frozenset((a, b)) not in inner.dvs:
                                good = False
                if not good:
                    continue
                try:
                    tree = self.apply(al, sigma, eproofs, sc if True else inner)
                except KeyError:
                    continue
                derived.append((tsubst(concl_t, sigma), tree))
                break
        if not derived:
            # fall back: instance of an axiom without hypotheses if any, else restate a hypothesis
            if facts:
                derived.append(facts[0])
            else:
                return
        concl, tree = derived[-1]
        # the proof may only use $f of variables: all usable ones have one
        stmt_terms = (Ap(T), concl)
        # frame of the theorem (mandatory hyps) to number the compressed proof
        e = O.flats(stmt_terms)
        fr = O.make_frame(inner, e)
        rpn = []

        def lin(t):
            for k in t[1]:
                lin(k)
            rpn.append(t[0])
        normal = r.random() < self.o['normal_proofs']
        if normal:
            lin(tree)
            proof = tuple(rpn)
            self.info['features'].add('normal-proof')
        else:
            proof = compress(tree, fr, r)
            self.info['features'].add('compressed-proof')
        p = ('P', lab, stmt_terms, proof)
        if ants:
            self.db.append(('B', tuple(ants) + (p,)))
            self.info['features'].add('theorem-block')
        else:
            self.db.append(p)
        self.asserts.append(lab)

    def unflat_hyp(self, label, ants):
        for a in ants:
            if a[0] == 'E' and a[1] == label:
                return a[2][1]
        for s in self.db:
            if s[0] == 'E' and s[1] == label:
                return s[2][1]
        return None

    def stmt_terms(self, label):
        """(list of (hyp label, term), conclusion term) of a |- assertion, terms as trees"""
        def find(stmts, hyps):
            for s in stmts:
                if s[0] == 'E':
                    hyps = hyps + [(s[1], s[2][1])]
                elif s[0] in 'AP' and s[1] == label:
                    return hyps, s[2][1]
                elif s[0] == 'B':
                    r_ = find(s[1], hyps)
                    if r_ is not None:
                        return r_
            return None
        return find(self.db, [])


def compress(tree, fr, r):
    """compressed proof tokens for a proof tree (label, kids) under frame fr; random use of Z and random
    chunking of the letter string"""
    mand = [h[0] for h in fr['mand']]
    labels = []
    use_z = r.random() < 0.6
    seen = {}
    saved = []
    out = []

    def key(t):
        return (t[0], tuple(key(k) for k in t[1]))

    def num(lab):
        if lab in mand:
            return mand.index(lab) + 1
        if lab not in labels:
            labels.append(lab)
        return None

    # first pass: collect labels in order of first use
    def coll(t):
        for k in t[1]:
            coll(k)
        num(t[0])
    coll(tree)
    if r.random() < 0.3:
        r.shuffle(labels)
    counts = {}

    def cnt(t):
        k = key(t)
        counts[k] = counts.get(k, 0) + 1
        for x in t[1]:
            cnt(x)
    cnt(tree)

    def emit(t):
        k = key(t)
        if use_z and k in seen:
            out.append(O.encode_number(len(mand) + len(labels) + seen[k] + 1))
            return
        for x in t[1]:
            emit(x)
        lab = t[0]
        n = mand.index(lab) + 1 if lab in mand else len(mand) + labels.index(lab) + 1
        out.append(O.encode_number(n))
        if use_z and t[1] and counts[k] > 1:
            out.append('Z')
            seen[k] = len(saved)
            saved.append(k)
    emit(tree)
    letters = ''.join(out)
    chunks = []
    while letters:
        n = r.randint(1, max(1, len(letters))) if r.random() < 0.5 else len(letters)
        chunks.append(letters[:n])
        letters = letters[n:]
    return ('(',) + tuple(labels) + (')',) + tuple(chunks)


def gen_db(rng, opts=None):
    return DbGen(rng, opts).build()


# ------------------------------------------------------------------ text layouts and malformed streams
def db_tokens(db):
    out = []

    def st(s):
        k = s[0]
        if k in 'CVD':
            out.extend(['$' + k.lower(), *s[1], '$.'])
        elif k == 'F':
            out.extend([s[1], '$f', s[2], s[3], '$.'])
        elif k in 'EA':
            out.extend([s[1], '$' + k.lower(), *O.flats(s[2]), '$.'])
        elif k == 'P':
            out.extend([s[1], '$p', *O.flats(s[2]), '$=', *(s[3] if s[3] is not None else ('?',)), '$.'])
        else:
            out.append('${')
            for x in s[1]:
                st(x)
            out.append('$}')
    for s in db:
        st(s)
    return out


def random_text(rng, toks):
    """tokens -> text with random whitespace and comments"""
    out = []
    for t in toks:
        out.append(t)
        x = rng.random()
        if x < 0.6:
            out.append(' ')
        elif x < 0.8:
            out.append('\n')
        elif x < 0.88:
            out.append('\n   \t ')
        elif x < 0.94:
            out.append(' $( a comment ' + rng.choice(['', '$c x $.', '( ) ', 'multi\nline']) + ' $)\n')
        else:
            out.append('\r\n  ')
    return ''.join(out)


def mutate_tokens(rng, toks):
    toks = list(toks)
    if not toks:
        return ['$.']
    for _ in range(rng.randint(1, 2)):
        i = rng.randrange(len(toks))
        m = rng.random()
        if m < 0.2:
            del toks[i]
        elif m < 0.35:
            toks.insert(i, toks[i])
        elif m < 0.55:
            toks.insert(i, rng.choice(['(', ')', '$.', '${', '$}', '$=', '$c', '$v', '$d', '$f', '$e', '$a', '$p']))
        elif m < 0.7 and len(toks) > 1:
            j = rng.randrange(len(toks))
            toks[i], toks[j] = toks[j], toks[i]
        elif m < 0.85:
            toks[i] = rng.choice(['(', ')', 'zz', 'ph0', 'ph1', '$.'])
        else:
            toks = toks[:i]
        if not toks:
            return ['$.']
    return toks


def random_ast(rng, depth=2):
    """arbitrary database AST (valid token texts, arbitrary shape: undeclared variables, parenthesis
    symbols, empty lists, missing proofs)"""
    syms = ['a', 'b', 'f', 'g', 'x', 'y', '(', ')', '|-', 'wff']

    def term(d):
        if d <= 0 or rng.random() < 0.4:
            if rng.random() < 0.5:
                return ('M', rng.choice(['x', 'y', 'z', '(', 'a']))
            return ('A', rng.choice(syms), ())
        return ('A', rng.choice(syms), tuple(term(d - 1) for _ in range(rng.randint(0, 3))))

    def names(lo=0):
        return tuple(rng.choice(['x', 'y', 'z', 'a', '(']) for _ in range(rng.randint(lo, 3)))

    def stmt(d):
        k = rng.choice('CVVDFEAPB' if d > 0 else 'CVVDFEAP')
        if k in 'CVD':
            return (k, names(0 if rng.random() < 0.1 else 1))
        if k == 'F':
            return ('F', rng.choice(['l1', 'l2']), rng.choice(['wff', 'a']), rng.choice(['x', 'y', 'z']))
        ts = tuple(term(2) for _ in range(rng.randint(0 if rng.random() < 0.1 else 1, 3)))
        if k in 'EA':
            return (k, rng.choice(['l1', 'l2', 'l3']), ts)
        if k == 'P':
            pf = None if rng.random() < 0.15 else tuple(rng.choice(['(', ')', 'l1', 'AB', '?']) for _ in range(rng.randint(0, 4)))
            return ('P', rng.choice(['t1', 't2']), ts, pf)
        return ('B', tuple(stmt(d - 1) for _ in range(rng.randint(0, 3))))
    return tuple(stmt(depth) for _ in range(rng.randint(0, 5)))

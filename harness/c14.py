"""C14 -- Binary round trip: deserialising a serialised proof replays it.

proof stage : coq/Props/C14.v  (roundtrip for every call the serialiser emits, in every phase;
              truncated / unknown input rejected; refutation witnesses of every D7 configuration)
tie stage   : random serialisable call histories (one phase and three phases, with notation) ->
              real SerializingInterpreter vs model [ser_step]; the emitted bytes and mutated streams
              -> real deserialize_instructions into a fresh StatefulInterpreter vs model [deser]
              (configuration dflags_fixed: every D7 defect repaired)
oracle      : the round trip on the implementation alone (RT request), truncation / unknown-byte
              rejection on the implementation alone, D7 witnesses from the corpus
"""
from __future__ import annotations

import glob
import json
import os

import common as C
import interp_common as IC
import interp_gen as G

CID = 'C14'
CORPUS = os.path.join(C.VERIF, 'harness', 'corpus', CID)

RULE = ('a case is one call history (SER) or one byte stream (DES); distinct = distinct canonical request line; '
        'non-trivial = history accepted by the serialiser containing at least one of ESubst/SSubst/constrained '
        'MetaVar/Quantifier/Generalization/Instantiate/Publish/Save/Load, or a byte stream on which both sides '
        'reach a decision after at least one decoded instruction')

INTERESTING = {'es', 'ss', 'qu', 'ge', 'in', 'ip', 'pp', 'pa', 'pc', 'sa', 'lo', 'mp'}


def gen_cases(rng, n):
    """-> list of dict(kind, phase, claims, calls)"""
    cases = []
    for i in range(n):
        cfg = G.Cfg(max_id=rng.choice([3, 4, 6]), syms=rng.choice([2, 5, 9]), big_ids=rng.random() < 0.15,
                    constrained=rng.choice([0.1, 0.3, 0.5]), subst=rng.choice([0.05, 0.15, 0.3]))
        hg = G.HistGen(rng, cfg, notation=rng.choice([0, 0.15, 0.4]), wrong=rng.choice([0, 0, 0.03]),
                       wild=rng.choice([0, 0.05, 0.15]))
        if rng.random() < 0.2:
            claims, calls, _ = hg.module_history(rng.randrange(0, 4), rng.randrange(0, 3), rng.choice([0, 0.1, 0.3]))
            cases.append(dict(kind='module', phase='G', claims=claims, calls=calls))
        else:
            ph = rng.choice('GCPPP')
            claims, calls, _ = hg.phase_history(ph, rng.randrange(1, 14))
            cases.append(dict(kind='phase', phase=ph, claims=claims, calls=calls))
    return cases


def run(tier, seed):
    R = C.Report(CID, tier, seed)
    rng = C.rng_for(seed, CID)
    n = 2500 if tier == 'quick' else 40000

    # 1. proof stage
    P = IC.proof_stage_with_translation(R)
    proof_broken = not P['ok']
    if proof_broken:
        R.notes.append('proof stage: ' + P['log'][-1500:])

    # 2. tie stage
    ok, log, exe = IC.build_model()
    mismatches = []
    oracle_fail = []          # (signature, description, replay)
    if not ok:
        mismatches.append(('build', log[-800:], ''))
        exe = None

    cases = gen_cases(rng, n)
    lines = [f'TRACE {c["phase"]} {IC.claims_txt(c["claims"])} {" ".join(c["calls"])}'.rstrip() for c in cases]
    impl = IC.run_impl(lines)
    parsed = []
    mlines = []
    for c, line, ans in zip(cases, lines, impl):
        body, x, kind = IC.split_impl(ans)
        c['impl'], c['kind_exc'] = body, kind
        if x is None or ans.startswith(('BAD', 'CRASH')):
            mismatches.append(('runner', line[:300], ans[:300]))
            mlines.append('SER G - ')
            c['x'] = None
            continue
        c['x'] = x
        mlines.append(f'TRACE {c["phase"]} {IC.claims_txt(c["claims"])} {x}'.rstrip())
    model = IC.run_model(exe, mlines) if exe else ['<nomodel>'] * len(mlines)

    des_lines_impl, des_lines_model, des_meta = [], [], []
    rt_lines, rt_meta = [], []
    for c, line, mans in zip(cases, lines, model):
        if c['x'] is None:
            continue
        hi = IC.parse_ser(c['impl'])
        hm = IC.parse_ser(mans)
        names = [IC.call_name(k) for k in c['calls']]
        # the round-trip oracle needs the implementation only: queue it whatever the model says
        if hi is not None and hi['ok'] and c['kind'] == 'phase':
            rt_lines.append('RT ' + line[len('TRACE '):])
            rt_meta.append(c)
        if hi is None or hm is None or hi['head'] != hm['head']:
            mismatches.append(('ser', line[:600], f'impl={c["impl"][:300]} model={mans[:300]}'))
            R.case(line, True, 'ser-MISMATCH')
            continue
        ri, rm = IC.parse_records(c['impl']), IC.parse_records(mans)
        if [r and (r['tracker'], r['n']) for r in ri] != [r and (r['tracker'], r['n']) for r in rm]:
            mismatches.append(('ser-trace', line[:600], f'impl={c["impl"][:300]} model={mans[:300]}'))
            R.case(line, True, 'ser-MISMATCH')
            continue
        accepted = hi['ok']
        nontrivial = accepted and bool(INTERESTING & set(names))
        R.case(line, nontrivial, f'ser-{c["kind"]}-{c["phase"]}-' + ('accepted' if accepted else 'rejected:' + c['kind_exc']))
        for nm in set(names[:hi['fail']] if hi['fail'] is not None else names):
            R.hist['call:' + nm] = R.hist.get('call:' + nm, 0) + 1
        if nontrivial:
            R.sample(line[:300])
        if not accepted:
            continue
        f = IC.numbering(hi['tbl'])
        rcl = IC.claims_txt([IC.rename(G.expand(cl), f) for cl in c['claims']])
        if c['kind'] == 'module':
            req = f'DES3 fixed {rcl} {hi["G"]} {hi["C"]} {hi["P"]} {hi["phase"]}'
            des_lines_impl.append(req)
            des_lines_model.append(req)
            des_meta.append(('roundtrip3', c, hi))
        else:
            hexb = hi[c['phase']]
            req = f'DES fixed {c["phase"]} {rcl} {hexb}'
            des_lines_impl.append(req)
            des_lines_model.append(req)
            des_meta.append(('roundtrip', c, hi))
            # malformed streams
            b = b'' if hexb == '-' else bytes.fromhex(hexb)
            for _ in range(2):
                k, mb = G.mutate_bytes(rng, b)
                req = f'DES fixed {c["phase"]} {rcl} {mb.hex() or "-"}'
                des_lines_impl.append(req)
                des_lines_model.append(req)
                des_meta.append(('mut-' + k, c, hi))
            # oracle material: truncations inside the last instruction, unknown byte appended
            recs = ri
            if recs and recs[-1] and recs[-1]['n'] >= 2 and len(b) >= recs[-1]['n']:
                cut = len(b) - rng.randrange(1, recs[-1]['n'])
                des_lines_impl.append(f'DES fixed {c["phase"]} {rcl} {b[:cut].hex() or "-"}')
                des_lines_model.append(des_lines_impl[-1])
                des_meta.append(('ORACLE-trunc', c, hi))
            des_lines_impl.append(f'DES fixed {c["phase"]} {rcl} {(b + bytes([rng.choice(G.UNHANDLED)])).hex()}')
            des_lines_model.append(des_lines_impl[-1])
            des_meta.append(('ORACLE-unknown', c, hi))

    # every byte value that is no instruction the model handles, at OPCODE position, in every phase, alone and
    # followed by a zero byte (an operand for a would-be one-operand instruction): must be reported as an error
    for ph in 'GCP':
        for b in range(256):
            if b in G.KNOWN_OPS:
                continue
            for tail in ('', '00'):
                req = f'DES fixed {ph} - {b:02x}{tail}'
                des_lines_impl.append(req)
                des_lines_model.append(req)
                des_meta.append(('ORACLE-unknown', None, None))
    dimpl = IC.run_impl(des_lines_impl)
    dmodel = IC.run_model(exe, des_lines_model) if exe else ['<nomodel>'] * len(des_lines_model)
    for req, ai, am, (kind, c, hi) in zip(des_lines_impl, dimpl, dmodel, des_meta):
        bi, _, exc = IC.split_impl(ai)
        agree = bi == am
        R.case(req, True, f'des-{kind}-' + ('OK' if bi.startswith('OK') else 'REJECT:' + exc) + ('' if agree else '-MISMATCH'))
        if not agree:
            mismatches.append(('des-' + kind, req[:600], f'impl={ai[:300]} model={am[:300]}'))
        # property oracles on the implementation alone
        if kind in ('roundtrip3',):
            want = 'OK ' + renamed_tracker(hi)
            if bi != want:
                names = [IC.call_name(k) for k in c['calls']]
                oracle_fail.append((f'roundtrip3:{bi.split()[0]}',
                                    'three-file round trip does not reproduce the serialiser state',
                                    dict(request=req, want=want, got=ai, calls=c['calls'])))
        if kind.startswith('ORACLE') and bi.startswith('OK'):
            oracle_fail.append((f'{kind[7:]}-input-accepted',
                                f'{kind[7:]} input was not reported as an error', dict(request=req, got=ai)))

    # round-trip oracle (implementation only); budget: all one-phase accepted histories
    rt = IC.run_impl(rt_lines)
    npass = 0
    for req, ans, c in zip(rt_lines, rt, rt_meta):
        if ans.startswith('PASS'):
            npass += 1
        elif ans.startswith('FAIL'):
            if sum(1 for o in oracle_fail if o[0].startswith('roundtrip:')) >= 8:
                continue
            sig = first_failing_call(req, c)
            oracle_fail.append((sig, 'serialise -> deserialise does not reproduce the state: ' + ans[:200],
                                dict(request=req, got=ans)))
        elif not ans.startswith('SKIP'):
            mismatches.append(('rt', req[:300], ans[:300]))
    R.hist['oracle-roundtrip-pass'] = npass

    # corpus: D7 witnesses (must PASS / REJECT on the repaired tree)
    for path in sorted(glob.glob(os.path.join(CORPUS, '*.json'))):
        w = json.load(open(path))
        ans = IC.run_impl([w['request']], chunks=1)[0]
        body, _, _ = IC.split_impl(ans)
        good = body.startswith(w['expect'])
        R.case(w['request'], True, 'corpus-' + ('ok' if good else 'FAIL'))
        if not good:
            oracle_fail.append((w['signature'], w['what'], dict(request=w['request'], expect=w['expect'], got=ans,
                                                                 corpus=os.path.basename(path))))
        if exe and w.get('model_request'):
            mans = IC.run_model(exe, [w['model_request']])[0]
            if not mans.startswith(w.get('model_expect', w['expect'])):
                mismatches.append(('corpus-model', w['model_request'], mans[:300]))

    # 4. verdict
    for sig, desc, replay in oracle_fail[:40]:
        R.violation(sig, desc, replay)
    if proof_broken and not R.violations:
        R.violation('proof-broken', 'Coq proof stage failed',
                    {'no_failing_input_found': True, 'theorem_or_correspondence': f'Props/{CID}.v', 'log': P['log'][-3000:]})
    if mismatches and not R.violations:
        R.violation('correspondence-broken', 'model and implementation disagree',
                    {'no_failing_input_found': True,
                     'theorem_or_correspondence': 'correspondence ser_step/deser vs SerializingInterpreter/deserialize_instructions',
                     'first_mismatches': mismatches[:5]})
    if mismatches:
        R.notes.append(f'{len(mismatches)} mismatches; first: {mismatches[0]}')
    R.coverage['rule'] = RULE
    return R.finish(level='proof', trusted_base=C.TRUSTED_COMMON + [
        IC.TRANSLATOR_TRUST,
        'harness/impl/interp_runner.py: request codec, full-expansion helper (Instantiate nodes expanded bottom-up with the '
        'real Pattern.instantiate), symbol names str(n) <-> n, and the typed wrapper `Checked` that turns an ill-typed '
        'argument (Proved where a Pattern is expected) into a reject on malformed streams',
        'ocaml/interp_driver.ml: request codec and printing',
        'model abstraction: Python exceptions of every class = reject; Python ints = N; bytes([..]) range check = `bytes`',
    ])


def renamed_tracker(hi):
    """the serialiser's final tracker with symbols renamed by its table, as the DES answer prints it"""
    f = IC.numbering(hi['tbl'])

    def ren_terms(s):
        if not s:
            return ''
        return ','.join(t[0] + G.show(IC.rename(G.dec(t[1:]), f)) for t in s.split(','))

    def ren_pats(s):
        if not s:
            return ''
        return ','.join(G.show(IC.rename(G.dec(t), f)) for t in s.split(','))

    return f'{hi["phase"]} S[{ren_terms(hi["S"])}] M[{ren_terms(hi["M"])}] C[{ren_pats(hi["Cl"])}]'


def first_failing_call(req, c):
    """signature of a round-trip failure: the call at which the shortest failing prefix ends"""
    f = req.split()
    head, calls = f[:3], f[3:]
    lo = None
    prefixes = [' '.join(head + calls[:k]) for k in range(1, len(calls) + 1)]
    answers = IC.run_impl(prefixes, chunks=1)
    for k, a in enumerate(answers):
        if a.startswith('FAIL'):
            lo = k
            break
    name = IC.call_name(calls[lo]) if lo is not None else 'unknown'
    return f'roundtrip:{head[1]}:{name}'


def replay(path):
    d = json.load(open(path))
    rep = d.get('replay', d)
    print(json.dumps(d, indent=1)[:3000])
    req = rep.get('request')
    if not req:
        print('no request recorded')
        return 0
    ok, log, exe = IC.build_model()
    print('request :', req)
    ans = IC.run_impl([req], chunks=1)[0]
    print('impl    :', ans[:1500])
    if exe and req.startswith(('DES', 'DES3')):
        print('model   :', IC.run_model(exe, [req])[0][:1500])
    elif exe and req.startswith('RT'):
        # the model's view of the same history: serialise (expanded calls), then deserialise
        f = req.split()
        tr = IC.run_impl([' '.join(['TRACE'] + f[1:])], chunks=1)[0]
        body, x, _ = IC.split_impl(tr)
        hi = IC.parse_ser(body)
        if x is not None and hi:
            print('model ser:', IC.run_model(exe, [f'SER {f[1]} {f[2]} {x}'])[0][:800])
            num = IC.numbering(hi['tbl'])
            rcl = IC.claims_txt([IC.rename(G.expand(G.dec(c)), num) for c in ([] if f[2] == '-' else f[2].split(';'))])
            print('model des:', IC.run_model(exe, [f'DES fixed {f[1]} {rcl} {hi[f[1]]}'])[0][:800])
    return 0

"""Assemble /verif/MANIFEST.json and KNOWN_FINDINGS.json from the per-property fragments."""
import json
import os

V = os.path.dirname(os.path.dirname(os.path.abspath(__file__)))
props = [json.loads(l) for l in open(os.path.join(V, 'properties.jsonl'))]
checks, na = [], []
for p in props:
    cid = p['id']
    mpath = os.path.join(V, 'harness', 'meta', cid + '.json')
    have = (os.path.exists(os.path.join(V, 'harness', 'c' + cid[1:] + '.py'))
            and os.path.exists(os.path.join(V, 'coq', 'Props', cid + '.v')) and os.path.exists(mpath))
    if not have:
        na.append(dict(property_id=cid, reason='check not built yet in this round (planned: DESIGN.md section 6 ' + cid + ')'))
        continue
    m = json.load(open(mpath))
    if m.get('not_applicable_reason'):
        na.append(dict(property_id=cid, reason=m['not_applicable_reason']))
        continue
    checks.append(dict(
        property_id=cid,
        quick_cmd=f'./check {cid} quick',
        thorough_cmd=f'./check {cid} thorough',
        evidence_file=f'/verif/evidence/{cid}.json',
        replay_cmd_template=f'./check {cid} --replay {{path}}',
        engine='coq-model+correspondence',
        level_claimed=dict(category=m.get('level', 'proof'), text=m['level_text'], design_ref=m.get('design_ref', 'DESIGN.md section 6 ' + cid)),
        level_note=m['level_note'],
        technique=m.get('technique', 'Coq theorem on Gallina model + extracted-model correspondence'),
    ))
man = dict(
    version=1,
    setup_cmd='./check --setup',
    hooks=dict(guard='PI2_VERIF', enable='none needed: no hook was added to /repo (private Rust is reached through a scratch copy of lib.rs, Python by import)',
               baseline_off_cmd='cd /repo && /venv/bin/python -m pytest -ra -q -p no:cacheprovider --timeout=900 --continue-on-collection-errors',
               source_commits=[], add_only=True),
    engines=[dict(name='coq-model+correspondence', path='/verif/check', serves_properties=[c['property_id'] for c in checks],
                  kind_free_text='Coq 8.16.1 theorems about Gallina models (coq/), models extracted to OCaml (ocaml/) and run against the '
                                 'Rust checker (scratch build of the current lib.rs) and the Python generator (/venv) on generated inputs; '
                                 'translators regenerate coq/Gen/*.v from the source on every run')],
    checks=checks,
    not_applicable=na,
    notes='See DESIGN.md. Known findings: KNOWN_FINDINGS.json. Fix commits in /repo are listed there as kind=fixed.',
)
json.dump(man, open(os.path.join(V, 'MANIFEST.json'), 'w'), indent=1)
# merge known findings fragments
items = []
main = os.path.join(V, 'KNOWN_FINDINGS.json')
kd = os.path.join(V, 'known_findings')
seen = set()
srcs = [os.path.join(kd, f) for f in sorted(os.listdir(kd)) if f.endswith('.json')]   # the fragments are the source of truth
for s in srcs:
    if os.path.exists(s):
        for k in json.load(open(s)).get('findings', []):
            key = (k['property'], k.get('id'), k['signature'])
            if key not in seen:
                seen.add(key)
                items.append(k)
json.dump(dict(findings=items), open(main, 'w'), indent=1)
print(f'{len(checks)} checks, {len(na)} not_applicable, {len(items)} findings')

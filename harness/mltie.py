"""Rust checker  <->  coq/ML model correspondence, shared by C01, C05, C06, C11."""
from __future__ import annotations

import itertools
import os

import common as C
import mlgen as G

GUARD_NAMES = ['g_ssubst_exists_capture', 'g_esubst_mu_capture', 'g_ssubst_mu_capture', 'g_esubst_exists_capture',
               'g_inst_constraints', 'g_gen_fresh', 'g_mp_antecedent', 'g_instantiate_arity', 'g_publish_claim_eq',
               'g_evar_plugs_only']
SOUND_BITS = '1111111110'


def regen_gen():
    """regenerate coq/Gen/{Opcodes,Judge,SubstFns,InstFn,Exec}.v from the CURRENT sources (fail closed)"""
    import sys
    sys.path.insert(0, os.path.join(C.VERIF, 'translators'))
    import opcodes
    import rust_judge
    import rust_subst
    import rust_inst
    import rust_exec
    errs = []
    for mod, fn in ((opcodes, 'Opcodes.v'), (rust_judge, 'Judge.v'), (rust_subst, 'SubstFns.v'), (rust_inst, 'InstFn.v'),
                    (rust_exec, 'Exec.v')):
        try:
            text = mod.generate(C.REPO)
            C.write_if_changed(os.path.join(C.COQ, 'Gen', fn), text)
        except SystemExit as e:
            errs.append(str(e))
        except Exception as e:  # noqa: BLE001
            errs.append(f'{mod.__name__}: {e!r}')
    return (not errs), '; '.join(errs)


def build_model():
    return C.build_mlref('ml', 'Extract/ExtractML.v', 'ml_model', 'ml_driver.ml', 'mlref_ml',
                         ['ML/Syntax.vo', 'ML/Subst.vo', 'ML/Machine.vo', 'Doc/Machine.vo'])


class Tie:
    def __init__(self, R):
        self.R = R
        self.ok_model, self.model_log, self.mlref = build_model()
        self.rsref, self.realbin, self.rust_log = C.build_rust()
        self.mismatches = []          # (request line, model answer, rust answer, label)
        self.accepted = 0
        self.rejected = 0

    @property
    def ready(self):
        return bool(self.ok_model and self.rsref)

    def compare(self, lines, labels, guards='sound'):
        """run request lines on both sides; record mismatches; returns (model_out, rust_out)"""
        m = C.run_lines_parallel(self.mlref, lines, args=('--guards', guards))
        r = C.run_lines_parallel(self.rsref, lines)
        if len(m) != len(lines) or len(r) != len(lines):
            self.mismatches.append(('<protocol>', f'model returned {len(m)} lines', f'rust returned {len(r)} lines', 'protocol'))
            return m, r
        for ln, a, b, lab in zip(lines, m, r, labels):
            if a != b:
                self.mismatches.append((ln, a, b, lab))
        return m, r

    def diagnose(self):
        """when there are mismatches: does the implementation behave like the model with exactly one
        guard removed?  returns list of guard names"""
        if not self.mismatches:
            return []
        lines = [m[0] for m in self.mismatches if m[0] != '<protocol>'][:400]
        rust = [m[2] for m in self.mismatches if m[0] != '<protocol>'][:400]
        hits = []
        for i, name in enumerate(GUARD_NAMES[:9]):
            bits = SOUND_BITS[:i] + '0' + SOUND_BITS[i + 1:]
            out = C.run_lines(self.mlref, lines, args=('--guards', bits))
            if out == rust:
                hits.append(name)
        return hits


# -------------------------------------------------------------------------------------------------
# program streams
# -------------------------------------------------------------------------------------------------

def program_cases(rng, n_valid, n_typed, n_mut, exhaustive_len):
    """yield (request line, label, nontrivial-key)"""
    cases = []
    valid = []
    for _ in range(n_valid):
        g, c, p, d = G.gen_valid_triple(rng, names=rng.choice([2, 3, 3, 4]), depth=rng.choice([1, 2, 2, 3]))
        valid.append((g, c, p))
        cases.append((f'V {G.hexs(g)} {G.hexs(c)} {G.hexs(p)}', 'valid:' + d))
    for _ in range(n_typed):
        ph = rng.choice('GCP')
        prog = G.gen_typed_prog(rng, length=rng.randrange(3, 25))
        cases.append((f'E {ph} {G.hexs(prog)}', 'typed:' + ph))
    for _ in range(n_mut):
        g, c, p = rng.choice(valid) if valid else ([], [], [])
        k = rng.randrange(3)
        trip = [list(g), list(c), list(p)]
        trip[k], kind = G.mutate(rng, trip[k])
        cases.append((f'V {G.hexs(trip[0])} {G.hexs(trip[1])} {G.hexs(trip[2])}', 'mutant:' + 'gcp'[k] + ':' + kind))
    # cross-phase programs: one type-directed program cut into gamma | claim | proof (a correct checker clears the stack
    # between phases, so later parts must not be able to consume what earlier parts left behind)
    for _ in range(n_typed // 2):
        prog = G.gen_typed_prog(rng, length=rng.randrange(4, 30))
        cuts = sorted(rng.randrange(0, len(prog) + 1) for _ in range(2))
        g, c, p = prog[:cuts[0]], prog[cuts[0]:cuts[1]], prog[cuts[1]:]
        cases.append((f'V {G.hexs(g)} {G.hexs(c)} {G.hexs(p)}', 'crossphase'))
    for _ in range(n_valid // 4):
        g, c, p = rng.choice(valid) if valid else ([], [], [])
        extra = G.build(G.gen_pat(rng, 1, 3))
        k = rng.randrange(3)
        if k == 0:
            cases.append((f'V {G.hexs(list(g) + extra)} {G.hexs(c)} {G.hexs(list(p) + [G.POP])}', 'residue:gamma->proof'))
        elif k == 1:
            cases.append((f'V {G.hexs(g)} {G.hexs(list(c) + extra)} {G.hexs([G.POP] + list(p))}', 'residue:claim->proof'))
        else:
            cases.append((f'V {G.hexs(list(g) + extra)} {G.hexs([G.PUBLISH] + list(c))} {G.hexs(p)}', 'residue:gamma->claim'))
    # Mu over meta-patterns: the positivity judgement on constrained metavariables and pending substitutions decides acceptance
    for _ in range(n_typed // 2):
        q = G.gen_pat(rng, rng.choice([1, 2, 3]), names=3)
        X = rng.randrange(3)
        ph = rng.choice('GCP')
        cases.append((f'E {ph} {G.hexs(G.build(q) + [G.MU, X])}', 'mu-over-meta'))
        if rng.random() < 0.5:
            # the same body in a negative position
            cases.append((f'E {ph} {G.hexs(G.build(q) + G.build(G.BOT) + [G.IMP, G.MU, X])}', 'mu-over-meta-neg'))
    # pending substitutions over constrained metavariables under Mu, in positive and negative position
    for _ in range(n_typed // 2):
        X, Y = rng.randrange(3), rng.randrange(3)

        def lst():
            return tuple(sorted(set(rng.choice([X, Y, rng.randrange(3)]) for _ in range(rng.randrange(0, 3)))))
        mv = ('MVar', rng.randrange(3), (), lst() if rng.random() < 0.3 else (), lst(), lst(), ())
        plug = rng.choice([('SVar', X), ('Imp', ('SVar', X), G.BOT), ('App', ('SVar', X), ('Sym', 0)), ('SVar', Y), ('Sym', 1),
                           ('Imp', ('Imp', ('SVar', X), G.BOT), G.BOT), ('Mu', X, ('SVar', X))])
        head = ('SSub', mv, Y, plug) if rng.random() < 0.7 else ('ESub', mv, rng.randrange(3), plug)
        if rng.random() < 0.3:
            head = ('SSub', head, rng.randrange(3), rng.choice([('SVar', X), ('Sym', 0)]))
        body = rng.choice([head, ('Imp', head, G.BOT), ('Imp', ('Imp', head, G.BOT), G.BOT), ('App', head, ('SVar', X)), ('Imp', head, ('SVar', X))])
        cases.append((f'E P {G.hexs(G.build(body) + [G.MU, X])}', 'mu-over-subst'))
    # exhaustive short programs over the opcode alphabet + operand bytes {0,1,2,255}
    alpha = sorted(set(G.ALL_OPS + [0, 1, 31, 32, 136, 138, 255]))
    for L in range(0, exhaustive_len + 1):
        for prog in itertools.product(alpha, repeat=L):
            for ph in 'GCP':
                cases.append((f'E {ph} {G.hexs(list(prog))}', f'exhaustive{L}:{ph}'))
    return cases


def adversarial_cases(rng, n):
    """Generalization / Substitution / Instantiate interleavings whose plugs mention bound names;
    includes the D1 exploit and its relatives.  Sound checkers must reject the capturing ones."""
    out = []
    D1 = ('V - 020008000200051e 02000300890089000589000d1a02020189008900050c1a01011589000c1a0101151a0100160018001e',
          'corpus:D1-exploit')
    out.append(D1)
    out.append(('E P 0c1a03', 'corpus:D2-truncated-instantiate'))
    out.append(('E P 0c1a020001', 'corpus:D2-truncated-instantiate-b'))
    for _ in range(n):
        names = 3
        x = rng.randrange(names)
        X = rng.randrange(names)
        fam = rng.randrange(12)
        if fam == 0:
            # imp_refl(A[X]) ; Gen x ; Subst X := plug mentioning x
            A = rng.choice([('SVar', X), ('Imp', ('SVar', X), ('Sym', 0)), ('App', ('SVar', X), ('SVar', X)),
                            ('Ex', (x + 1) % names, ('SVar', X))])
            plug = rng.choice([('EVar', x), ('App', ('EVar', x), ('Sym', 1)), ('Ex', x, ('EVar', x)), ('EVar', (x + 1) % names)])
            prog = G.build(plug) + G.prog_imp_refl(A) + [G.GEN, x, G.SUBST, X]
            concl = None
            out.append((f'E P {G.hexs(prog)}', 'adv:gen-subst'))
        elif fam == 1:
            # constrained metavar, Gen, then instantiate with something mentioning x
            mv = ('MVar', 0, (x,), (), (), (), ())
            plug = rng.choice([('EVar', x), ('Sym', 0), ('Ex', x, ('EVar', x)), ('App', ('EVar', x), ('EVar', x))])
            prog = G.build(plug) + G.prog_imp_refl(mv) + [G.GEN, x, G.INST, 1, 0]
            out.append((f'E P {G.hexs(prog)}', 'adv:constrained-gen-inst'))
        elif fam == 2:
            # Subst under Mu binder with plug mentioning the bound set variable
            Y = (X + 1) % names
            A = ('Mu', Y, ('App', ('SVar', Y), ('SVar', X)))
            plug = rng.choice([('SVar', Y), ('Sym', 0), ('Mu', Y, ('SVar', Y))])
            prog = G.build(plug) + G.prog_imp_refl(A) + [G.SUBST, X]
            out.append((f'E P {G.hexs(prog)}', 'adv:subst-under-mu'))
        elif fam == 3:
            # Quantifier axiom with phi0 := pattern binding the plug variable
            body = rng.choice([('Ex', 1, ('EVar', 0)), ('EVar', 0), ('Mu', 0, ('App', ('SVar', 0), ('EVar', 0))),
                               ('Ex', 0, ('EVar', 0)), ('App', ('EVar', 0), ('EVar', 1)),
                               ('Imp', ('Ex', 0, ('EVar', 0)), ('Sym', 0)), ('Imp', ('Ex', 1, ('EVar', 0)), ('Sym', 0))]
                              + [G.gen_pat(rng, 2, 2, meta=False) for _ in range(6)])
            prog = G.build(body) + [G.QUANT, G.INST, 1, 0]
            out.append((f'E P {G.hexs(prog)}', 'adv:quantifier-inst'))
        elif fam == 4:
            # unconstrained metavar generalised: must be rejected (phi0 not known fresh)
            prog = G.prog_imp_refl(G.phi(0)) + [G.GEN, x] + G.build(('EVar', x)) + [G.POP]
            out.append((f'E P {G.hexs(prog)}', 'adv:gen-unconstrained'))
        elif fam == 5:
            # pending element substitution with a general plug mentioning x; Gen x; then resolve it
            plug = rng.choice([('App', ('EVar', x), ('EVar', x)), ('App', ('EVar', x), ('Sym', 0)), ('Ex', (x + 1) % names, ('EVar', x)),
                               ('EVar', (x + 1) % names), ('Imp', ('EVar', x), G.BOT)])
            y = rng.choice([x, (x + 1) % names])
            ef = tuple(sorted(set(rng.choice([x, y]) for _ in range(rng.randrange(0, 2)))))
            mv = ('MVar', 0, ef, (), (), (), ())
            if rng.random() < 0.5:
                E = ('ESub', mv, y, plug)
                inst_to = rng.choice([('EVar', y), ('App', ('EVar', y), ('EVar', y)), ('Sym', 1), ('Ex', x, ('EVar', y))])
            else:
                E = ('SSub', mv, X, plug)
                inst_to = rng.choice([('SVar', X), ('App', ('SVar', X), ('SVar', X)), ('Sym', 1), ('Mu', X, ('SVar', X))])
            shape = rng.randrange(3)
            if shape == 0:
                prog = G.build(inst_to) + G.prog_imp_refl(E) + [G.GEN, x, G.INST, 1, 0]
            elif shape == 1:
                # prop1[E, s0]; Gen x; resolve; then detach with Existence (|- exists x0. x0) when x = 0
                prog = G.build(inst_to) + G.inst_axiom(G.PROP1, [E, ('Sym', 0)]) + [G.GEN, x, G.INST, 1, 0, G.EXISTENCE, G.MP]
            else:
                prog = G.build(inst_to) + G.inst_axiom(G.PROP1, [('Sym', 0), E]) + [G.INST, 1, 0]
            out.append((f'E P {G.hexs(prog)}', 'adv:pending-subst-gen-inst'))
        elif fam == 6:
            # constraint lists (s_fresh / positive / negative) with a violating or respecting plug
            which = rng.randrange(3)
            cons = [(), (), (), (), ()]
            lst = tuple(sorted({X, rng.randrange(names)}))
            mv = ('MVar', 0, (), lst if which == 0 else (), lst if which == 1 else (), lst if which == 2 else (), ())
            plug = rng.choice([('SVar', X), ('Imp', ('SVar', X), ('Sym', 0)), ('Imp', ('Imp', ('SVar', X), ('Sym', 0)), ('Sym', 0)), ('Sym', 0),
                               ('Mu', X, ('SVar', X)), ('SVar', (X + 1) % names)])
            prog = G.build(plug) + G.prog_imp_refl(mv) + [G.INST, 1, 0]
            out.append((f'E P {G.hexs(prog)}', 'adv:constraint-lists-inst'))
        elif fam == 7:
            # declared but unproved / wrongly proved claims
            c = G.gen_pat(rng, 2, names, meta=False)
            other = G.gen_pat(rng, 1, names, meta=False)
            proof = rng.choice([[], G.prog_imp_refl(other) + [G.PUBLISH], G.prog_imp_refl(other)])
            out.append((f'V - {G.hexs(G.build(c) + [G.PUBLISH])} {G.hexs(proof)}', 'adv:unproved-or-mismatching-claim'))
        elif fam == 9:
            # one metavariable id used with two different constraint sets in one proved term (constraints live on the occurrence)
            mc = ('MVar', 0, (x,), (), (), (), ())
            gf = ('Imp', ('Ex', x, mc), mc)
            inst_to = rng.choice([('EVar', x), ('App', ('EVar', x), ('Sym', 0)), ('Sym', 1), ('EVar', (x + 1) % names)])
            if rng.random() < 0.5:
                prog = (G.build(inst_to) + G.inst_axiom(G.PROP1, [gf, ('Imp', G.phi(0), G.phi(0))])
                        + G.prog_imp_refl(mc) + [G.GEN, x, G.MP, G.INST, 1, 0])
            else:
                prog = G.build(inst_to) + G.inst_axiom(G.PROP1, [G.phi(0), mc]) + [G.INST, 1, 0]
            out.append((f'E P {G.hexs(prog)}', 'adv:same-id-two-constraint-sets'))
        elif fam == 10:
            # instantiate only a metavariable that sits in the PLUG of a pending substitution (sequential vs simultaneous)
            head = rng.choice(['ESub', 'SSub'])
            mvp = ('MVar', 1, (x,) if rng.random() < 0.4 else (), (), (), (), ())
            E = (head, G.phi(0), x if head == 'ESub' else X, mvp)
            c = rng.choice([('Sym', 0), ('EVar', x), ('SVar', X)])
            base = rng.choice([('EVar', x), ('SVar', X), ('App', ('EVar', x), ('EVar', x))])
            steps = rng.choice([[(1, c)], [(1, c), (0, base)], [(0, base), (1, c)], [(0, base)]])
            prog = []
            for (_, plug) in reversed(steps):
                prog += G.build(plug)
            prog += G.prog_imp_refl(E)
            for (i, _) in steps:
                prog += [G.INST, 1, i]
            out.append((f'E P {G.hexs(prog)}', 'adv:inst-plug-of-pending-subst'))
        elif fam == 11:
            # several distinct claims discharged in a permuted order (claims are a stack)
            cs = []
            for _ in range(rng.randrange(2, 4)):
                a = G.gen_pat(rng, 1, names, meta=False)
                cs.append((('Imp', a, a), G.prog_imp_refl(a)))
            claimb = []
            for c_, _ in cs:
                claimb += G.build(c_) + [G.PUBLISH]
            order = list(range(len(cs)))
            rng.shuffle(order)
            proofb = []
            for i in order:
                proofb += cs[i][1] + [G.PUBLISH]
            out.append((f'V - {G.hexs(claimb)} {G.hexs(proofb)}', 'adv:claims-discharged-in-permuted-order'))
        else:
            # substitution into a constrained / pending-substitution schema, then instantiate
            mv = ('MVar', 0, (), (X,) if rng.random() < 0.5 else (), (), (), ())
            A = rng.choice([('SSub', G.phi(1), X, ('SVar', (X + 1) % names)), ('Imp', mv, ('SVar', X)), ('Mu', (X + 1) % names, ('App', ('SVar', (X + 1) % names), mv))])
            plug = rng.choice([('SVar', X), ('SVar', (X + 1) % names), ('Sym', 0)])
            inst_to = rng.choice([('SVar', X), ('SVar', (X + 1) % names), ('EVar', x)])
            prog = G.build(inst_to) + G.build(plug) + G.prog_imp_refl(A) + [G.SUBST, X, G.INST, 1, rng.choice([0, 1])]
            out.append((f'E P {G.hexs(prog)}', 'adv:subst-then-inst'))
    return out


# -------------------------------------------------------------------------------------------------
# finite-model oracle (independent of the Coq model): evaluates patterns in small models
# -------------------------------------------------------------------------------------------------

def has_general_esubst(p):
    t = p[0]
    if t == 'ESub':
        return p[3][0] != 'EVar' or has_general_esubst(p[1])
    if t == 'SSub':
        return has_general_esubst(p[1]) or has_general_esubst(p[3])
    if t in ('Imp', 'App'):
        return has_general_esubst(p[1]) or has_general_esubst(p[2])
    if t in ('Ex', 'Mu'):
        return has_general_esubst(p[2])
    return False


def evaluate(p, n, app, sym, ev, sv, atoms):
    """set of points (frozenset of ints < n) where p holds.  app: dict (a,b)->frozenset; sym: dict id->frozenset;
    ev: dict evar->int; sv: dict svar->frozenset; atoms: dict MVar-node -> frozenset (constant atoms)"""
    full = frozenset(range(n))
    t = p[0]
    if t == 'EVar':
        return frozenset([ev.get(p[1], 0)])
    if t == 'SVar':
        return sv.get(p[1], frozenset())
    if t == 'Sym':
        return sym.get(p[1], frozenset())
    if t == 'Imp':
        return (full - evaluate(p[1], n, app, sym, ev, sv, atoms)) | evaluate(p[2], n, app, sym, ev, sv, atoms)
    if t == 'App':
        l = evaluate(p[1], n, app, sym, ev, sv, atoms)
        r = evaluate(p[2], n, app, sym, ev, sv, atoms)
        out = set()
        for a in l:
            for b in r:
                out |= app[(a, b)]
        return frozenset(out)
    if t == 'Ex':
        out = set()
        for a in range(n):
            e2 = dict(ev)
            e2[p[1]] = a
            out |= evaluate(p[2], n, app, sym, e2, sv, atoms)
        return frozenset(out)
    if t == 'Mu':
        cur = frozenset()
        for _ in range(n + 2):
            s2 = dict(sv)
            s2[p[1]] = cur
            nxt = evaluate(p[2], n, app, sym, ev, s2, atoms)
            if nxt == cur:
                break
            cur = nxt
        return cur
    if t == 'MVar':
        return atoms[p]
    if t == 'ESub':
        if p[3][0] != 'EVar':
            return atoms[p]          # opaque node: constant atoms are admissible semantic atoms
        e2 = dict(ev)
        e2[p[2]] = ev.get(p[3][1], 0)
        return evaluate(p[1], n, app, sym, e2, sv, atoms)
    if t == 'SSub':
        s2 = dict(sv)
        s2[p[2]] = evaluate(p[3], n, app, sym, ev, sv, atoms)
        return evaluate(p[1], n, app, sym, ev, s2, atoms)
    raise ValueError(t)


def mvars_of(p, acc):
    t = p[0]
    if t == 'MVar' or (t == 'ESub' and p[3][0] != 'EVar'):
        acc.add(p)
    if t != 'MVar':
        for q in p[1:]:
            if isinstance(q, tuple) and q and isinstance(q[0], str):
                mvars_of(q, acc)
    return acc


def find_countermodel(p, rng, tries=24):
    """search small models for a point where p fails (constant atoms: valid semantic atoms)"""
    ms = sorted(mvars_of(p, set()))
    for t in range(tries):
        n = 1 if t == 0 else (2 if t < tries - 4 else 3)
        pts = range(n)

        def rs():
            return frozenset(a for a in pts if rng.random() < 0.5)
        app = {(a, b): rs() for a in pts for b in pts}
        sym = {i: rs() for i in range(8)}
        ev = {i: rng.randrange(n) for i in range(8)}
        sv = {i: rs() for i in range(8)}
        atoms = {m: rs() for m in ms}
        val = evaluate(p, n, app, sym, ev, sv, atoms)
        if len(val) != n:
            return dict(carrier=n, app={f'{a},{b}': sorted(v) for (a, b), v in app.items()},
                        sym={k: sorted(v) for k, v in sym.items()}, evars=ev,
                        svars={k: sorted(v) for k, v in sv.items()},
                        atoms={G.show(m): sorted(v) for m, v in atoms.items()},
                        value=sorted(val))
    return None


def proved_terms_of(state_line):
    """patterns tagged Proved in the stack or memory of a `... S[..] M[..] C[..]` dump"""
    import re
    out = []
    m = re.search(r'S\[([^\]]*)\] M\[([^\]]*)\] C\[([^\]]*)\]', state_line)
    if not m:
        return out
    for body in (m.group(1), m.group(2)):
        for t in body.split(','):
            if t.startswith('T'):
                out.append(G.dec(G.unhex(t[1:])))
    return out

#!/bin/bash
# usage: harness/runall.sh [quick|thorough]   — runs every registered check on the current /repo, one line each
tier=${1:-quick}
cd "$(dirname "$0")/.."
for c in $(python3 -c "import json; print(' '.join(x['property_id'] for x in json.load(open('MANIFEST.json'))['checks']))"); do
  s=$(date +%s)
  out=$(timeout 3600 ./check $c $tier 2>&1); rc=$?
  e=$(( $(date +%s) - s ))
  echo "$c rc=$rc ${e}s known=$(echo "$out" | grep -c '^KNOWN-FINDING') viol=$(echo "$out" | grep -c '^VIOLATION') | $(echo "$out" | tail -1 | cut -c1-150)"
done

"""C18 — Output is a deterministic function of the input.

proof : coq/Props/C18.v.  Modelled content = absence of ORDER DEPENDENCE: translators/setsites.py scans the five
        anchored files (fail closed) and regenerates coq/Gen/SetSites.v; coq/Det/Sites.v proves that every site is
        matched by an order-independence theorem about its model (finalize_perm_invariant, memo_membership_only,
        sorted/consumer/unlink lemmas) and that nothing is unclassified.
tie 1 : extracted finalize model (ocaml/mlref_det, three different iteration-order oracles) vs the real
        CountingInterpreter.finalize on usage tables produced by real runs.
tie 2 : RUNTIME PART THE MODEL CANNOT EXHIBIT (CPython hash randomisation, interpreter-global state, history):
        correspondence only.  Shipped proof modules (their own __main__), generated modules and Metamath
        translations (translate.main) are run in fresh subprocesses under 6 / 64 values of PYTHONHASHSEED, twice in
        one process and after unrelated serialisations; all six output files must be byte-identical everywhere.
"""
import json
import os
import subprocess
import sys
from concurrent.futures import ThreadPoolExecutor

import common as C

sys.path.insert(0, os.path.join(C.VERIF, 'translators'))
import setsites  # noqa: E402

CID = 'C18'
SHIPPED = [('propositional', 'Propositional'), ('small_theory', 'SmallTheory'), ('substitution', 'Substitution'),
           ('kore', 'KoreLemmas')]
FILES6 = ['ml-gamma', 'ml-claim', 'ml-proof', 'pretty-gamma', 'pretty-claim', 'pretty-proof']
LS = 'ABCDEFGHIJKLMNOPQRST'
MS = 'UVWXY'


def enc(n):
    n -= 1
    s = LS[n % 20]
    n //= 20
    while n > 0:
        n -= 1
        s = MS[n % 5] + s
        n //= 5
    return s


def run_runner(jobs, hashseed, out, timeout=900):
    env = {**os.environ, 'PYTHONPATH': C.PYSRC + os.pathsep + C.SHIMS, 'PYTHONHASHSEED': str(hashseed),
           'PYTHONDONTWRITEBYTECODE': '1', 'PYTHONWARNINGS': 'ignore'}
    p = subprocess.run([C.PY, os.path.join(C.VERIF, 'harness', 'impl', 'c18_runner.py')],
                       input=json.dumps({'out': out, 'jobs': jobs}), capture_output=True, text=True, timeout=timeout,
                       env=env, cwd=C.REPO)
    res = []
    for line in p.stdout.split('\n'):
        if line.strip():
            try:
                res.append(json.loads(line))
            except ValueError:
                res.append({'err': 'unparsable', 'msg': line[:200]})
    res += [{'err': 'missing', 'msg': p.stderr[-300:]}] * (len(jobs) - len(res))
    return res


def gen_mm(rng, path):
    """a small valid database whose goal has 1..3 mandatory variables declared in an order unrelated to the $f order;
    the proof is one axiom-schema application, compressed"""
    pool = ['ph0', 'ph1', 'ph2', 'ph3', 'th0', 'psi', 'chi', 'x0', 'a', 'b', 'q', 'ptn0', 'ptn1']
    names = rng.sample(pool, rng.randint(3, 6))
    order = names[:]
    rng.shuffle(order)
    a, b, c = names[0], names[1], names[2]
    src = ['$c #Pattern |- \\imp ( ) $.', '$v ' + ' '.join(names) + ' $.']
    for v in order:
        lbl = f'{v}-is-pattern' if rng.random() < 0.6 else f'{v}-pattern'
        src.append(f'{lbl} $f #Pattern {v} $.')
    src.append(f'imp-is-pattern $a #Pattern ( \\imp {a} {b} ) $.')
    src.append(f'proof-rule-prop-1 $a |- ( \\imp {a} ( \\imp {b} {a} ) ) $.')
    src.append(f'proof-rule-prop-2 $a |- ( \\imp ( \\imp {a} ( \\imp {b} {c} ) ) ( \\imp ( \\imp {a} {b} ) ( \\imp {a} {c} ) ) ) $.')
    if rng.random() < 0.5:
        x, y = rng.sample(names, 2) if rng.random() < 0.7 else [rng.choice(names)] * 2
        used = [v for v in order if v in (x, y)]
        steps = [used.index(x) + 1, used.index(y) + 1, len(used) + 1]
        if x == y and rng.random() < 0.7:
            steps = [1, 0, 3, 2]       # X, Z (mark it), reference to the marked step (m + k + 1 = 3), the rule
        goal = f'( \\imp {x} ( \\imp {y} {x} ) )'
        rule = 'proof-rule-prop-1'
    else:
        x, y, z = rng.sample(names, 3)
        used = [v for v in order if v in (x, y, z)]
        steps = [used.index(x) + 1, used.index(y) + 1, used.index(z) + 1, len(used) + 1]
        goal = f'( \\imp ( \\imp {x} ( \\imp {y} {z} ) ) ( \\imp ( \\imp {x} {y} ) ( \\imp {x} {z} ) ) )'
        rule = 'proof-rule-prop-2'
    src.append(f'goal $p |- {goal} $= ( {rule} ) {"".join("Z" if s == 0 else enc(s) for s in steps)} $.')
    with open(path, 'w') as f:
        f.write('\n'.join(src) + '\n')
    return len(used)


AMB_POOL = ['xX', 'yY', 'zZ', 'aA', 'bB', 'eX', 'sS', 'v1', 'v2', 'v3', 'uU', 'wW', 'k', 'm', 'Var0', 'Var1']


def gen_mm_ambiguous(rng, path, fixed=False):
    """impreflex-compressed-goal.mm extended with 2..3 `$f #Variable` (element-or-set) variables and theory axioms that
    mention at least two of them: GlobalScope.unambiguize decides their EVar/SVar numbers, which end up in .ml-gamma"""
    amb = ['xX', 'yY'] if fixed else rng.sample(AMB_POOL, rng.choice([2, 2, 3]))
    order = amb[:]
    if not fixed:
        rng.shuffle(order)
    src = ['$c #Pattern #Variable $.', '$v ph0 ph1 ph2 ' + ' '.join(amb) + ' $.',
           'ph0-is-pattern $f #Pattern ph0 $.', 'ph1-is-pattern $f #Pattern ph1 $.', 'ph2-is-pattern $f #Pattern ph2 $.']
    src += [f'{v}-is-var $f #Variable {v} $.' for v in order]
    src += ['$c |- $.', '$c \\imp $.', '$c ( ) $.', f'var-is-pattern $a #Pattern {order[0]} $.',
            'imp-is-pattern $a #Pattern ( \\imp ph0 ph1 ) $.',
            'proof-rule-prop-1 $a |- ( \\imp ph0 ( \\imp ph1 ph0 ) ) $.',
            'proof-rule-prop-2 $a |- ( \\imp ( \\imp ph0 ( \\imp ph1 ph2 ) ) ( \\imp ( \\imp ph0 ph1 ) ( \\imp ph0 ph2 ) ) ) $.',
            '${ proof-rule-mp.0 $e |- ( \\imp ph0 ph1 ) $.  proof-rule-mp.1 $e |- ph0 $.  proof-rule-mp $a |- ph1 $. $}']
    naxioms = 1 if fixed else rng.randint(1, 3)
    for i in range(naxioms):
        vs = amb[:] if fixed else rng.sample(amb, rng.randint(2, len(amb)))
        if len(vs) == 2:
            a, b = vs
            src.append(f'vars-axiom-{i} $a |- ( \\imp {a} ( \\imp {b} {a} ) ) $.')
        else:
            a, b, c = vs
            src.append(f'vars-axiom-{i} $a |- ( \\imp ( \\imp {a} ( \\imp {b} {c} ) ) ( \\imp ( \\imp {a} {b} ) ( \\imp {a} {c} ) ) ) $.')
    src.append('goal $p |- ( \\imp ph0 ph0 ) $=\n  ( imp-is-pattern proof-rule-prop-2 proof-rule-prop-1 proof-rule-mp ) AAABZBZF\n  AFABBGFBAFACAFDEAADE $.')
    with open(path, 'w') as f:
        f.write('\n'.join(src) + '\n')
    return len(amb)


def finalize_line(d, oracle, slots=None):
    ents = []
    for u, s, c, used in d['usage']:
        ents.append(f'{u};{s};{c};' + (','.join(f'{k}:{n}' for k, n in used) or '_'))
    mem = ','.join(str(m if m >= 0 else len(d['usage']) + 7) for m in d['memory']) or '_'
    return f"F {oracle} {max(0, d['slots'] - len(d['memory']))} {mem} {'|'.join(ents) or '_'}"


def run(tier, seed):
    R = C.Report(CID, tier, seed)
    quick = tier == 'quick'
    rng = C.rng_for(seed, CID)
    scratch = C.scratch_dir('pi2c18.')

    # ---- 0. regenerate Gen/SetSites.v from the current sources (fail closed) -------------------------------
    scan_err = None
    try:
        sites, nondet = setsites.scan(C.REPO)
        C.write_if_changed(os.path.join(C.COQ, 'Gen', 'SetSites.v'), setsites.emit(sites, nondet))
        for s in sites:
            R.case(('site', s['file'], s['func'], s['kind'], s['expr']), s['cls'] in ('unordered', 'tainted'), 'site:' + s['cls'])
        R.sample({'set_sites': [f"{s['file']}:{s['func']}:{s['kind']}:{s['expr']}" for s in sites if s['cls'] == 'unordered']})
    except Exception as e:  # noqa: BLE001
        scan_err = f'{type(e).__name__}: {e}'
        sites, nondet = [], []

    # ---- 1. proof stage ----------------------------------------------------------------------------------------
    P = R.proof_stage()
    proof_broken = (not P['ok']) or scan_err is not None
    unmatched = []
    if proof_broken:
        R.notes.append('proof stage failed: ' + (scan_err or P['log'][-1500:]))
        # which sites are new: compare with the committed matching table by text
        tab = open(os.path.join(C.COQ, 'Det', 'Sites.v')).read()
        for s in sites:
            if s['cls'] in ('unordered', 'tainted', 'unknown') and ('s_expr := ' + setsites.coq_string(s['expr'])) not in tab:
                unmatched.append(s)
        unmatched += [dict(n, kind='nondet-call', cls='nondet') for n in nondet]

    seeds = [0, 1, 2, 3, 4, 5] if quick else list(range(0, 54)) + [77, 123, 255, 256, 1000, 4242, 65535, 99991, 2 ** 31 - 1, 2 ** 32 - 1]
    if proof_broken and quick:
        seeds = list(range(16))      # search harder for a concrete failing input

    # ---- 2. tie 1: finalize model vs implementation ---------------------------------------------------------------
    mismatches, findings = [], []
    ok, log, exe = C.build_mlref('det', 'Extract/ExtractDet.v', 'det_model', 'det_driver.ml', 'mlref_det', ['Det/Finalize.vo'])
    ngen = 24 if quick else 300
    if not ok:
        mismatches.append(('model-build', log[-400:]))
    else:
        jobs = [{'t': 'finalize', 'module': m, 'cls': c} for m, c in SHIPPED]
        for m, c in SHIPPED[:3]:
            for sl in (0, 1, 2, 3, 5, 9):
                jobs.append({'t': 'finalize', 'module': m, 'cls': c, 'slots': sl})
        for g in range(ngen):
            jobs.append({'t': 'finalize', 'seed': seed * 100000 + g})
            if g % 3 == 0:
                jobs.append({'t': 'finalize', 'seed': seed * 100000 + g, 'slots': rng.choice([0, 1, 2, 4, 8])})
        fseeds = seeds[:3] if quick else seeds[:6]
        with ThreadPoolExecutor(max_workers=len(fseeds)) as ex:
            dumps = list(ex.map(lambda hs: run_runner(jobs, hs, os.path.join(scratch, f'fin{hs}')), fseeds))
        base = dumps[0]
        lines = []
        for d in base:
            if 'err' in d:
                continue
            for orc in ('id', 'rev', 'rot'):
                lines.append(finalize_line(d, orc))
        mo = C.run_lines_parallel(exe, lines)
        k = 0
        for ji, d in enumerate(base):
            if 'err' in d:
                mismatches.append(('finalize-runner', jobs[ji], d))
                continue
            outs = mo[k:k + 3]
            k += 3
            impl_final = '|'.join(f'{a};{b};{c}' for a, b, c in d['final']) or '_'
            if isinstance(d['suggested'], str):
                exp = 'N'
            else:
                exp = None
            nsug = len(d['suggested']) if exp is None else -1
            R.case(('finalize', jobs[ji].get('module', jobs[ji].get('seed')), jobs[ji].get('slots')), nsug != 0,
                   f'finalize:suggested={"0" if nsug == 0 else "1-4" if nsug < 5 else "5-19" if nsug < 20 else "20+"}'
                   f':table={"<50" if len(d["usage"]) < 50 else "<500" if len(d["usage"]) < 500 else "500+"}')
            for o in outs:
                if exp == 'N':
                    good = o == 'N'
                else:
                    f = o.split(' ')
                    good = f[0] == 'OK' and sorted(int(x) for x in f[1].split(',') if x != '_') == d['suggested'] and f[2] == impl_final
                if not good:
                    mismatches.append(('finalize', jobs[ji], o[:300], (d['suggested'], impl_final[:200])))
                    break
            # the implementation itself under the other hash seeds
            for hs, ds in zip(fseeds[1:], dumps[1:]):
                if ds[ji] != d:
                    findings.append(('nondeterministic:finalize', f'CountingInterpreter.finalize differs between PYTHONHASHSEED={fseeds[0]} and {hs} '
                                     f'for {jobs[ji]}', {'job': jobs[ji], 'hashseeds': [fseeds[0], hs],
                                                         'suggested': [d.get('suggested'), ds[ji].get('suggested')]}))
        R.sample({'finalize_jobs': len(jobs), 'model_lines': len(lines)})

    # ---- 2b. tie 1b: models of the converter sites (Det/ConverterModel.v) vs the real code -----------------------------
    if ok:
        def es(x):
            return '.'.join(str(ord(ch)) for ch in x) or '-'

        def el(l):
            return ';'.join(es(x) for x in l) if l else '_'

        def dl(x):
            return [] if x == '_' else ['' if y == '-' else ''.join(chr(int(z)) for z in y.split('.')) for y in x.split(';')]

        bench0 = os.path.join(C.REPO, 'generation', 'mm-benchmarks')
        mfiles = ['disjointness-alt-lemma.mm', 'transfer-goal.mm', 'perceptron-goal.mm', 'impreflex.mm'] + \
                 ([] if quick else ['svm5-goal.mm', 'transfer-simple-compressed-goal.mm', 'transfer-batch-1k-goal.mm'])
        rs = C.rng_for(seed, CID + ':sorted')
        alpha = 'abcxyzABZ019_-.\\ph\u00e9\u0101\u4e2d\U0001d7ff'
        lists = [[''.join(rs.choice(alpha) for _ in range(rs.randint(0, 4))) for _ in range(rs.randint(0, 7))]
                 for _ in range(150 if quick else 3000)]
        ucases = []
        for _ in range(60 if quick else 1500):
            amb = rs.sample(AMB_POOL, rs.randint(1, 5))
            sel = rs.sample(amb, rs.randint(1, min(4, len(amb))))
            ucases.append({'base_e': rs.sample(['x', 'y', 'z', 'w'], rs.randint(0, 3)), 'base_s': rs.sample(['X', 'Y', 'Z'], rs.randint(0, 2)),
                           'amb': amb, 'selected': sel})
        cjobs = [{'t': 'metavars', 'path': os.path.join(bench0, f)} for f in mfiles] + [{'t': 'unamb', 'cases': ucases}] + \
                [{'t': 'sorted', 'lists': lists}]
        cseeds = seeds[:4]
        with ThreadPoolExecutor(max_workers=len(cseeds)) as ex:
            cres = list(ex.map(lambda hs: run_runner(cjobs, hs, os.path.join(scratch, f'cv{hs}')), cseeds))
        lines, meta = [], []
        for hs, res in zip(cseeds, cres):
            for fj, r in zip(mfiles, res):
                if 'err' in r:
                    mismatches.append(('metavars-runner', fj, r))
                    continue
                for name, d in r['names'].items():
                    lines.append(f"M {el(r['floating'])} {el(d['metavars'])}")
                    meta.append(('M', fj, name, hs, d))
            ur = res[len(mfiles)]
            if 'cases' not in ur:
                mismatches.append(('unamb-runner', ur))
            else:
                for uc, r in zip(ucases, ur['cases']):
                    be = len(uc['base_e']) + len(uc['amb']) - len(uc['selected'])
                    bs = len(uc['base_s']) + len(uc['amb']) - len(uc['selected'])
                    lines.append(f"K {be} {el(uc['selected'])}")
                    meta.append(('K', None, None, hs, (uc, r['first'], r['n'], 'all-element scope')))
                    lines.append(f"K {bs} {el(uc['selected'])}")
                    meta.append(('K', None, None, hs, (uc, r['last'], r['n'], 'all-set scope')))
            if hs == cseeds[0] and 'sorted' in res[-1]:
                for l, want in zip(lists, res[-1]['sorted']):
                    lines.append(f'Q {el(sorted(set(l), key=lambda x: (len(x), x[::-1])))}')     # any listing of the set
                    meta.append(('Q', None, None, hs, want))
        mo2 = C.run_lines_parallel(exe, lines)
        varied = 0
        seen_mv = {}
        seen_un = {}
        for o, (kd, fj, name, hs, d) in zip(mo2, meta):
            if kd == 'M':
                R.case(('metavars', fj, name, hs), len(d['metavars']) > 1, 'converter-site:metavars_in_order')
                if dl(o) != d['in_order'] or d['len'] != len(d['metavars']) or d['as_set'] != sorted(set(d['metavars'])):
                    mismatches.append(('metavars_in_order', fj, name, hs, o, d))
                k0 = seen_mv.setdefault((fj, name), d)
                if k0['metavars'] != d['metavars']:
                    varied += 1                      # the tuple itself moves with the hash seed ...
                if k0['in_order'] != d['in_order'] or k0['as_set'] != d['as_set']:
                    findings.append(('nondeterministic:get_metavars_in_order', f'{fj}:{name} differs between hash seeds',
                                     {'file': fj, 'name': name, 'a': k0, 'b': d, 'hashseed': hs}))   # ... its consumers must not
            elif kd == 'K':
                uc, want, nsc, which = d
                got = {} if o == '_' else {dl(x.rsplit('=', 1)[0])[0]: int(x.rsplit('=', 1)[1]) for x in o.split(';')}
                R.case(('unambiguize', json.dumps(uc, sort_keys=True), hs, json.dumps(want, sort_keys=True)), len(uc['selected']) > 1,
                       'scope-site:unambiguize')
                if got != want or nsc != 2 ** len(uc['selected']):
                    mismatches.append(('unambiguize_numbers', uc, hs, got, want, nsc))
                kk = (json.dumps(uc, sort_keys=True), which)
                prev = seen_un.setdefault(kk, (hs, want))
                if prev[1] != want:
                    findings.append(('nondeterministic:GlobalScope.unambiguize',
                                     f'variable numbers given by unambiguize({uc["selected"]}) in the {which} differ between PYTHONHASHSEED={prev[0]} and {hs}',
                                     {'case': uc, 'hashseeds': [prev[0], hs], 'numbers': [prev[1], want],
                                      'how': 'harness/impl/c18_runner.py job {"t":"unamb","cases":[case]}'}))
            else:
                R.case(('sorted', tuple(d)), len(d) > 1, 'converter-site:sorted(set)')
                if dl(o) != d:
                    mismatches.append(('sort_str', o, d))
        R.hist['metavars-tuple-order-varied-with-seed'] = varied
        R.sample({'metavars_cases': len([1 for m in meta if m[0] == 'M']), 'sorted_cases': len(lists),
                  'tuples_whose_order_moved_with_the_seed': varied})

    # ---- 3. tie 2: process-level determinism (correspondence only) -----------------------------------------------------
    mmdir = os.path.join(scratch, 'mm')
    os.makedirs(mmdir, exist_ok=True)
    items = [{'t': 'shipped', 'name': m} for m, _ in SHIPPED]
    items += [{'t': 'gen', 'seed': seed * 100000 + g} for g in range(12 if quick else 80)]
    # modules with their OWN notation tables (none / other names and formats / partial) sharing stack terms with Propositional
    for g in range(3 if quick else 12):
        for mode in ('none', 'own', 'partial'):
            items.append({'t': 'gen', 'seed': seed * 1000 + g, 'notations': mode})
    # serialise -> mutate -> serialise on one object vs the untouched object twice vs a fresh object: same key, so all
    # observations of the three modes must agree (output is a function of the content at serialisation time)
    for g in range(3 if quick else 15):
        n1 = 1 + g % 3
        for mode in ('fresh', 'incremental', 'twice'):
            items.append({'t': 'incr', 'seed': seed * 1000 + g, 'n1': n1, 'n2': n1 + 3 + g % 4, 'mode': mode})
    bench = os.path.join(C.REPO, 'generation', 'mm-benchmarks')
    items += [{'t': 'mm', 'path': os.path.join(bench, 'impreflex-compressed-goal.mm'), 'target': 'goal'},
              {'t': 'mm', 'path': os.path.join(bench, 'impreflex-compressed.mm'), 'target': 'imp-reflexivity'}]
    heavy = []
    if not quick:
        # 39 KB benchmark: one translation (3 x binary+pretty, 2 MB of pretty text) takes ~100 s, so it is observed in fresh
        # processes only (four hash seeds), not inside the per-seed sequences
        heavy.append({'t': 'mm', 'path': os.path.join(bench, 'transfer-simple-compressed-goal.mm'), 'target': 'goal'})
    rmm = C.rng_for(seed, CID + ':mm')
    for i in range(8 if quick else 40):
        p = os.path.join(mmdir, f'gen{i}.mm')
        nm = gen_mm(rmm, p)
        items.append({'t': 'mm', 'path': p, 'target': 'goal', 'mandatory': nm})
    # the D12 witness as a translatable database
    wit = os.path.join(mmdir, 'd12_witness.mm')
    with open(wit, 'w') as f:
        f.write('$c #Pattern |- \\imp ( ) $.\n$v ph0 ph1 ph2 $.\nph0-is-pattern $f #Pattern ph0 $.\nph1-is-pattern $f #Pattern ph1 $.\n'
                'ph2-is-pattern $f #Pattern ph2 $.\nimp-is-pattern $a #Pattern ( \\imp ph0 ph1 ) $.\n'
                'proof-rule-prop-1 $a |- ( \\imp ph0 ( \\imp ph1 ph0 ) ) $.\n'
                'goal $p |- ( \\imp ph1 ( \\imp ph0 ph1 ) ) $= ( proof-rule-prop-1 ) BAC $.\n')
    items.append({'t': 'mm', 'path': wit, 'target': 'goal', 'mandatory': 2})
    # databases whose exported axioms mention two or three `$f #Variable` variables (numbers decided by scope.unambiguize)
    p = os.path.join(mmdir, 'two_variable_floats.mm')
    gen_mm_ambiguous(rmm, p, fixed=True)
    items.append({'t': 'mm', 'path': p, 'target': 'goal', 'ambiguous': 2})
    for i in range(5 if quick else 30):
        p = os.path.join(mmdir, f'amb{i}.mm')
        na = gen_mm_ambiguous(rmm, p)
        items.append({'t': 'mm', 'path': p, 'target': 'goal', 'ambiguous': na})
    # a proof that marks a step with Z and refers back to it (number m + k + 1), two variables declared out of order
    zw = os.path.join(mmdir, 'z_backreference.mm')
    with open(zw, 'w') as f:
        f.write('$c #Pattern |- \\imp ( ) $.\n$v ph1 ph0 $.\nptn1-pattern $f #Pattern ph1 $.\nph0-is-pattern $f #Pattern ph0 $.\n'
                'proof-rule-prop-1 $a |- ( \\imp ph0 ( \\imp ph1 ph0 ) ) $.\n'
                'goal $p |- ( \\imp ph0 ( \\imp ph0 ph0 ) ) $= ( proof-rule-prop-1 ) AZCB $.\n')
    items.append({'t': 'mm', 'path': zw, 'target': 'goal', 'mandatory': 1})

    def key(it):
        return json.dumps({k: v for k, v in it.items() if k not in ('mandatory', 'ambiguous', 'mode')}, sort_keys=True)

    # (a) per hash seed ONE process that serialises every item twice, in two different orders
    def seq_for(hs):
        r = C.rng_for(seed, f'{CID}:order:{hs}')
        a, b = items[:], items[:]
        if hs == seeds[0]:
            b.reverse()                 # everything after the shipped modules, then everything before them
        elif len(seeds) > 1 and hs == seeds[1]:
            a.reverse()                 # the generated modules first (cold process), the shipped ones last
        else:
            r.shuffle(a)
            r.shuffle(b)
        return a + b

    seqs = {hs: seq_for(hs) for hs in seeds}
    with ThreadPoolExecutor(max_workers=min(C.NCPU, len(seeds))) as ex:
        res_seq = dict(zip(seeds, ex.map(lambda hs: run_runner(seqs[hs], hs, os.path.join(scratch, f'seq{hs}')), seeds)))
    # (b) fresh subprocess per item (history-free), two seeds
    fresh_seeds = seeds[:2]
    fresh_jobs = [(it, hs) for it in items for hs in fresh_seeds] + [(it, hs) for it in heavy for hs in seeds[:4]]
    with ThreadPoolExecutor(max_workers=C.NCPU) as ex:
        res_fresh = list(ex.map(lambda a: run_runner([a[1][0]], a[1][1], os.path.join(scratch, f'fr{a[0]}'))[0],
                                list(enumerate(fresh_jobs))))
    # (c) the real command lines (python -m ...) for the shipped modules and the benchmark translation
    def real_cmd(args, hs, outdir):
        env = {**os.environ, 'PYTHONPATH': C.PYSRC + os.pathsep + C.SHIMS, 'PYTHONHASHSEED': str(hs), 'PYTHONWARNINGS': 'ignore'}
        subprocess.run([C.PY, '-m'] + args, capture_output=True, text=True, timeout=600, env=env, cwd=C.REPO)
        import hashlib
        out = {}
        if os.path.isdir(outdir):
            for fn in sorted(os.listdir(outdir)):
                b = open(os.path.join(outdir, fn), 'rb').read()
                out[fn.split('.')[-1]] = hashlib.sha256(b).hexdigest()[:24] + ':' + str(len(b))
        return out

    cmd_jobs = []
    for m, _ in SHIPPED:
        for hs in fresh_seeds:
            od = os.path.join(scratch, f'cmd_{m}_{hs}')
            cmd_jobs.append((('shipped', m), hs, od, [['proof_generation.proofs.' + m, 'binary', od, m, '--optimize'],
                                                       ['proof_generation.proofs.' + m, 'pretty', od, m]]))
    for it in items:
        if it['t'] == 'mm' and 'mm-benchmarks' in it['path']:
            for hs in fresh_seeds:
                od = os.path.join(scratch, f'cmd_{os.path.basename(it["path"])}_{hs}')
                cmd_jobs.append((('mm', it['path']), hs, od, [['proof_generation.metamath.translate', it['path'], od, it['target']]]))

    def run_cmd(job):
        ident, hs, od, cmds = job
        r = {}
        for c in cmds:
            r = real_cmd(c, hs, od)
        return r

    with ThreadPoolExecutor(max_workers=C.NCPU) as ex:
        res_cmd = list(ex.map(run_cmd, cmd_jobs))

    # ---- compare: for each item every observation must be the same six hashes ------------------------------------------
    obs = {}     # key -> list of (where, result)
    for hs in seeds:
        for pos, (it, r) in enumerate(zip(seqs[hs], res_seq[hs])):
            md = f' mode={it["mode"]}' if 'mode' in it else ''
            obs.setdefault(key(it), []).append((f'seed={hs} position={pos}{md} (one process, after {pos} other serialisations)', r))
    for (it, hs), r in zip(fresh_jobs, res_fresh):
        obs.setdefault(key(it), []).append((f'seed={hs} fresh process' + (f' mode={it["mode"]}' if 'mode' in it else ''), r))
    nobs = 0
    done_keys = set()
    for it in items + heavy:
        if key(it) in done_keys:
            continue
        done_keys.add(key(it))
        ol = obs[key(it)]
        ref_where, ref = ol[0]
        kind = it['t'] + (f':mandatory={it["mandatory"]}' if 'mandatory' in it else '') + \
            (f':ambiguous-variable-floats={it["ambiguous"]}' if 'ambiguous' in it else '') + \
            (f':own-notation-table={it["notations"]}' if 'notations' in it else '') + (':serialise-mutate-serialise' if it['t'] == 'incr' else '')
        for where, r in ol:
            nobs += 1
            R.case(('run', key(it), where), True, 'run:' + kind)
        bad = [(w, r) for w, r in ol if {k: r.get(k) for k in FILES6 + ['err']} != {k: ref.get(k) for k in FILES6 + ['err']}]
        if 'err' in ref and not bad:
            # same failure everywhere: not a determinism violation; report as coverage problem for generated inputs only
            R.notes.append(f'{key(it)} fails identically everywhere: {ref.get("err")} {ref.get("msg", "")[:120]}')
            R.hist['run-failed-identically'] = R.hist.get('run-failed-identically', 0) + 1
        if it['t'] == 'mm':
            for w, r in ol:
                if r.get('all_calls_equal') is False:
                    findings.append((f'history-dependent-output:translate.main:{os.path.basename(it["path"]) if "mm-benchmarks" in it["path"] else "generated"}',
                                     f'the three ProofExp.main calls inside translate.main wrote different files ({w})',
                                     {'item': it, 'where': w, 'snaps': r.get('snaps'), 'mm_source': open(it['path']).read()[:3000]}))
                    break
        if bad:
            w, r = bad[0]
            diff = [k for k in FILES6 + ['err'] if r.get(k) != ref.get(k)]
            what = 'shipped:' + it['name'] if it['t'] == 'shipped' else ('mm-ambiguous-variables' if 'ambiguous' in it else
                                                                        'module-with-own-notation-table' if 'notations' in it else
                                                                        'serialise-mutate-serialise' if it['t'] == 'incr' else it['t'])
            findings.append((f'nondeterministic-output:{what}:{",".join(d.split("-")[0] if d != "err" else "outcome" for d in diff[:1])}',
                             f'{key(it)}: output differs between [{ref_where}] and [{w}] in {diff}',
                             {'item': it, 'a': {'where': ref_where, 'result': ref}, 'b': {'where': w, 'result': r},
                              'mm_source': open(it['path']).read()[:3000] if it['t'] == 'mm' else None,
                              'how': 'harness/impl/c18_runner.py with the job sequence of that seed (see c18.seq_for)'}))
    # (d) one path string, two contents, in ONE process: every translation must give the files of the content that is at the path
    #     at the time of the call (= what a fresh process gives for that content)
    mmgen = [it for it in items if it['t'] == 'mm' and it['path'].startswith(mmdir)]
    pairs = []
    for i in range(0, min(len(mmgen) - 1, 6 if quick else 24), 2):
        pairs.append((mmgen[i], mmgen[i + 1]))
    sp_jobs, sp_meta = [], []
    for a, b in pairs:
        for rel in (False, True):
            sp_jobs.append({'t': 'mm_same_path', 'a': open(a['path']).read(), 'b': open(b['path']).read(), 'target': 'goal', 'relative': rel})
            sp_meta.append((a, b, rel))
    for hs in seeds[:2]:
        res = run_runner(sp_jobs, hs, os.path.join(scratch, f'sp{hs}'))
        for (a, b, rel), r in zip(sp_meta, res):
            how = 'the same relative path from two working directories' if rel else 'one absolute path overwritten in between'
            for which, it in (('first', a), ('second', b)):
                R.case(('same-path', key(a), key(b), rel, which, hs), True, 'run:mm:same-path-different-content')
                ref = obs[key(it)][0][1]
                got = (r or {}).get(which) or {}
                if {k: got.get(k) for k in FILES6 + ['err']} != {k: ref.get(k) for k in FILES6 + ['err']}:
                    findings.append(('history-dependent-output:translate.main:same-path-different-content',
                                     f'{how}: the {which} translation does not give the files of the database that is at the path '
                                     f'(differs from a fresh-process translation of the same content in '
                                     f'{[k for k in FILES6 + ["err"] if got.get(k) != ref.get(k)]})',
                                     {'item': None, 'relative': rel, 'hashseed': hs, 'which': which,
                                      'database_first': open(a['path']).read()[:3000], 'database_second': open(b['path']).read()[:3000],
                                      'got': got, 'expected_like_fresh_process': {k: ref.get(k) for k in FILES6},
                                      'how': 'harness/impl/c18_runner.py job {"t":"mm_same_path","a":database_first,"b":database_second,'
                                             '"target":"goal","relative":%s}' % str(rel).lower()}))
                    break

    # real command lines agree with the runner's observation of the same item
    for (ident, hs, od, cmds), r in zip(cmd_jobs, res_cmd):
        R.case(('cmd', ident, hs), True, 'run:real-command-line')
        it = next(i for i in items if (i['t'], i.get('name', i.get('path'))) == ident)
        ref = obs[key(it)][0][1]
        keys = FILES6 if ident[0] == 'shipped' else FILES6[:3]
        if {k: r.get(k) for k in keys} != {k: ref.get(k) for k in keys}:
            findings.append((f'nondeterministic-output:{ident[0]}:command-line',
                             f'python -m {cmds[0][0]} under PYTHONHASHSEED={hs} differs from the in-process run',
                             {'cmds': cmds, 'hashseed': hs, 'got': r, 'expected': {k: ref.get(k) for k in keys}}))
    R.sample({'items': len(items), 'observations': nobs, 'seeds': seeds, 'example': obs[key(items[0])][0]})

    # ---- verdict -------------------------------------------------------------------------------------------------------
    seen_sig = []
    for sig, desc, replay in findings:
        if sig not in seen_sig and len(seen_sig) < 8:
            seen_sig.append(sig)
            R.violation(sig, desc, replay)
    if proof_broken and not R.violations:
        R.violation('proof-broken' if not unmatched else 'unmatched-order-site',
                    'Coq proof stage failed' + (': new unordered-collection site(s) without an order-independence theorem' if unmatched else ''),
                    {'no_failing_input_found': True, 'theorem_or_correspondence': 'Det/Sites.v all_set_sites_matched / Props/C18.v',
                     'unmatched_sites': unmatched[:10], 'log': (scan_err or P['log'])[-2500:]})
    if mismatches and not R.violations:
        R.violation('correspondence-broken', 'finalize model and CountingInterpreter.finalize disagree',
                    {'no_failing_input_found': True, 'theorem_or_correspondence': 'correspondence mlref_det vs CountingInterpreter.finalize',
                     'first_mismatches': [repr(m)[:1200] for m in mismatches[:4]]})
    if mismatches:
        R.notes.append(f'{len(mismatches)} finalize mismatches; first {repr(mismatches[0])[:600]}')
    R.coverage['rule'] = ('sites: every scanned iterable of the anchored files (non-trivial = unordered/tainted); finalize: one real usage '
                          'table per (module, slots) compared under three oracles (non-trivial = at least one pattern suggested); run: one '
                          'observation of the six output files per (item, hash seed, position in the process)')
    R.coverage['hash_seeds'] = seeds
    R.coverage['process_level_determinism'] = 'by correspondence only (not a theorem): see level_text'
    return R.finish(level='proof', trusted_base=C.TRUSTED_COMMON + [
        'translators/setsites.py (static scanner, type-lite; REVIEWED_ORDERED table of two dict iterations; TAINTED_ATTRS = {metavars})',
        'CPython dict insertion order, set iteration = arbitrary permutation (modelling convention)',
        'process-level determinism (hash randomisation, interpreter-global state, history) is covered by the runtime tie only',
        'files outside the five anchored ones (pattern.py, interpreters, scope.py, lark) are covered by the runtime tie only',
    ])


def replay(path):
    d = json.load(open(path))
    rp = d.get('replay', d)
    print(json.dumps(rp, indent=1)[:3000])
    it = rp.get('item')
    if rp.get('database_first'):
        scratch = C.scratch_dir('pi2c18r.')
        pa, pb = os.path.join(scratch, 'first.mm'), os.path.join(scratch, 'second.mm')
        open(pa, 'w').write(rp['database_first'])
        open(pb, 'w').write(rp['database_second'])
        fresh = [run_runner([{'t': 'mm', 'path': p, 'target': 'goal'}], 0, os.path.join(scratch, f'f{i}'))[0] for i, p in enumerate((pa, pb))]
        r = run_runner([{'t': 'mm_same_path', 'a': rp['database_first'], 'b': rp['database_second'], 'target': 'goal',
                         'relative': bool(rp.get('relative'))}], rp.get('hashseed', 0), os.path.join(scratch, 'sp'))[0]
        bad = 0
        for which, f in (('first', fresh[0]), ('second', fresh[1])):
            g = (r or {}).get(which) or {}
            same = {k: g.get(k) for k in FILES6} == {k: f.get(k) for k in FILES6}
            print(f'{which} translation from the shared path:', {k: g.get(k) for k in FILES6})
            print(f'fresh process, same content          :', {k: f.get(k) for k in FILES6}, 'SAME' if same else 'DIFFERENT')
            bad += not same
        return 1 if bad else 0
    if not it:
        return 0
    scratch = C.scratch_dir('pi2c18r.')
    if it['t'] == 'mm' and not os.path.exists(it['path']) and rp.get('mm_source'):
        it = dict(it, path=os.path.join(scratch, 'replay.mm'))
        open(it['path'], 'w').write(rp['mm_source'])
    it = {k: v for k, v in it.items() if k not in ('mandatory', 'ambiguous')}
    modes = ['fresh', 'incremental', 'twice'] if it['t'] == 'incr' else [None]
    seen = set()
    for hs in range(8):
        r = run_runner([dict(it, mode=m) for m in modes] if modes[0] else [it, it], hs, os.path.join(scratch, f'o{hs}'))
        print(f'PYTHONHASHSEED={hs}:', json.dumps(r)[:400])
        seen |= {json.dumps({k: x.get(k) for k in FILES6 + ['err']}, sort_keys=True) for x in r}
    print('distinct outcomes:', len(seen))
    return 0 if len(seen) == 1 else 1

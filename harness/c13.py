"""C13 - Matching is sound and complete.

proof : coq/Props/C13.v (match_sound, match_complete, match_list_*, notation_roundtrip; _refuted per flag)
tie   : extracted model vs pattern.match_single / match / Notation.matches / assert_matches (literal answers)
oracle: textbook first-order matcher on reference expansions (pygen.ref_match): the implementation must
        succeed exactly when it does and return the same bindings up to expansion; the returned substitution
        must rebuild the instance through the implementation's own instantiate/== (MSI, MLI); every notation
        (shipped, families, generated) at random argument tuples must round-trip (RT).
"""
import json
import os

import common as C
import pycodec as PC
import pygen as G
import pyside as PS

CID = 'C13'


def present(rng, gen, t, drop):
    """an equal pattern in a different notation state"""
    c = rng.random()
    if c < 0.35:
        return t
    if c < 0.7:
        return G.partial_unfold(rng, t, 0.6, drop)
    return G.ref_expand(t, drop)


def gen_pair(rng, gen, drop, depth):
    """(pattern, instance, sigma): mostly instance = pattern[sigma] in some presentation"""
    pat = gen.term(depth, subst=0.03, raw_inst=0.04)
    sigma = gen.delta(rng.choice([0, 1, 1, 2]), keys=range(gen.nmv), notation=0.3)
    c = rng.random()
    if c < 0.7:
        inst = present(rng, gen, ('I', pat, sigma), drop)
        if rng.random() < 0.2:
            inst = gen.mutate(inst)
    elif c < 0.85:
        inst = present(rng, gen, pat, drop)           # identity instance
    else:
        inst = gen.term(depth)
    return pat, inst, sigma


def gen_cases(rng, sides, n, drop):
    plain = [nt for nt in sides.shipped if nt.family is None]
    gen = G.Gen(rng, notations=plain)
    generated = [gen.random_notation(2, f'g{i}') for i in range(12)]
    gen.notations += generated
    spines = G.spine_notations(rng)
    allnots = [nt for nt in sides.shipped if nt.chunks is not None or nt.expr is not None]
    cases = []
    for _ in range(n):
        depth = rng.choice([1, 2, 2, 3, 3])
        c = rng.random()
        if c < 0.45:
            pat, inst, sigma = gen_pair(rng, gen, drop, depth)
            s = rng.random()
            if s < 0.7:
                seed = ()
            elif s < 0.9:   # consistent seed: part of sigma, presented differently
                seed = tuple((k, present(rng, gen, v, drop)) for k, v in sigma if rng.random() < 0.5)
            else:
                seed = gen.delta(1)
            op = 'MS' if rng.random() < 0.5 else 'MSI'
            args = PC.show(pat) + ' ' + PC.show(inst) + ' ' + PC.showd(seed)
        elif c < 0.65:
            k = rng.choice([0, 1, 1, 2, 3])
            eqs = []
            sigma = gen.delta(1, keys=range(gen.nmv))
            for _j in range(k):
                s = rng.random()
                if s < 0.25:    # ground equation: solvable with the empty substitution
                    g = gen.term(depth, mvs=False, subst=0.0, raw_inst=0.0)
                    eqs.append((g, present(rng, gen, g, drop)))
                elif s < 0.85:
                    pat = gen.term(depth, subst=0.02, raw_inst=0.03)
                    eqs.append((pat, present(rng, gen, ('I', pat, sigma), drop)))
                else:
                    eqs.append((gen.term(depth), gen.term(depth)))
            op = 'ML' if rng.random() < 0.5 else 'MLI'
            args = ' '.join([str(len(eqs))] + [PC.show(p) + ' ' + PC.show(i) for p, i in eqs])
        elif c < 0.85:
            nt = rng.choice(allnots) if rng.random() < 0.7 else rng.choice(generated)
            ar = nt.arity if rng.random() < 0.97 else nt.arity + 1
            targs = [gen.term(rng.choice([0, 1, 2])) for _ in range(ar)]
            ref = f'#{nt.nid}' if hasattr(nt, 'nid') else ' '.join(nt.toks())
            op = 'RT'
            args = ' '.join([ref, str(len(targs))] + [PC.show(a) for a in targs])
        elif c < 0.885:   # history: the same requests repeated within ONE process, interleaved with matches sharing their first equation
            pat, inst, sigma = gen_pair(rng, gen, drop, rng.choice([1, 2]))
            if rng.random() < 0.6:      # make sure the first equation binds something and succeeds
                inst = present(rng, gen, ('I', pat, gen.delta(1, keys=range(gen.nmv), notation=0.2)), drop)
            first = PC.show(pat) + ' ' + PC.show(inst)
            free = [k for k in range(gen.nmv + 2) if k not in G.ref_metavars_syntactic(pat)] or [gen.nmv + 2]

            def second():
                return PC.show(PC.mv(rng.choice(free))) + ' ' + PC.show(gen.term(rng.choice([0, 1])))
            items = []
            for _j in range(rng.randrange(3, 7)):
                k = rng.random()
                if k < 0.4:
                    items.append(f'ML 2 {first} {second()}')
                elif k < 0.6:
                    items.append(f'MS {first} 0')
                elif k < 0.75:
                    items.append(f'ML 1 {first}')
                elif k < 0.9:
                    items.append(f'MS {second()} ' + PC.showd(tuple((kk, present(rng, gen, v, drop)) for kk, v in sigma[:1])))
                else:
                    p2, i2, _s2 = gen_pair(rng, gen, drop, 1)
                    items.append(f'MS {PC.show(p2)} {PC.show(i2)} 0')
            op, args = 'HIST', f'{len(items)} ' + ' '.join(items)
        elif c < 0.92:    # deconstruct_nary_application: the spine must rebuild the pattern
            nts = [x for x in allnots if x.family == 'nary_app'] + spines + ([rng.choice(allnots)] if rng.random() < 0.2 else [])
            nt = rng.choice([x for x in nts if x.arity >= 1])
            a_ = [gen.term(rng.choice([0, 1, 2])) for _ in range(nt.arity)]
            items = list(enumerate(a_))
            if rng.random() < 0.35:
                rng.shuffle(items)
            p = ('I', nt.definition, tuple(items))
            if rng.random() < 0.5:
                op, args = 'DN', PC.show(p)
            else:
                q = ('I', nt.definition, tuple(enumerate(a_))) if rng.random() < 0.6 else present(rng, gen, p, drop)
                if rng.random() < 0.5:
                    p, q = q, p
                op, args = 'DNP', PC.show(p) + ' ' + PC.show(q)
        else:
            nt = rng.choice(allnots) if rng.random() < 0.6 else rng.choice(generated)
            if rng.random() < 0.7:
                t = present(rng, gen, nt(*[gen.term(rng.choice([0, 1, 2])) for _ in range(nt.arity)]), drop)
                if rng.random() < 0.15:
                    t = gen.mutate(t)
            else:
                t = gen.term(depth)
            ref = f'#{nt.nid}' if hasattr(nt, 'nid') else ' '.join(nt.toks())
            op = rng.choice(['NM', 'NA'])
            args = ref + ' ' + PC.show(t)
        cases.append(PS.make_case(op, args, sides.notn_by_id))
    return cases


def kindfun(c, impl_ans):
    a = impl_ans.split()[0] if impl_ans.split() else ''
    return f'{c.op}:{"no-match" if a in ("NONE", "RAISE") else "match"}'


def corpus_cases(sides):
    out = []
    d = os.path.join(C.VERIF, 'harness', 'corpus', CID)
    if os.path.isdir(d):
        for fn in sorted(os.listdir(d)):
            if fn.endswith('.json'):
                j = json.load(open(os.path.join(d, fn)))
                out.append(PS.make_case(j['op'], j['args'], sides.notn_by_id))
    return out


def run(tier, seed):
    R = C.Report(CID, tier, seed)
    PS.drop_stale_known(R, PS.MY_PROPS)
    rng = C.rng_for(seed, CID)
    n = 20000 if tier == 'quick' else 500000
    P = PS.proof_stage(R)
    proof_broken = not P['ok']

    sides = PS.Sides()
    cfg = PS.expected_config()
    det = sides.detect_config()
    R.notes.append({'expected_config': cfg, 'detected_config': det})
    for fl in PS.FLAGS:
        if det[fl] is True and not cfg[fl]:
            cfg[fl] = True
            R.notes.append(f'finding for {fl} no longer reproduces; model run with the repaired configuration')
    drop = not cfg['f_mv_keep_subst']

    grng = rng

    def gen_fn(k):
        cs = gen_cases(grng, sides, k, drop)
        for c in cs[:6]:
            R.sample(f'{c.op} {c.args[:160]}')
        return cs
    mismatches, nfail, nmis = PS.check_in_batches(R, sides, cfg, CID, corpus_cases(sides), gen_fn, n if not proof_broken else 3 * n, kindfun=kindfun)
    if mismatches and not nfail:
        grng = C.rng_for(seed, CID + ':search')
        _, nfail, _ = PS.check_in_batches(R, sides, cfg, CID, [], gen_fn, 4 * n, kindfun=kindfun)
    failing = [None] * nfail
    if proof_broken and not R.violations:
        R.violation('proof-broken', 'Coq proof stage failed',
                    {'no_failing_input_found': True, 'theorem_or_correspondence': f'Props/{CID}.v', 'log': P['log']})
    if mismatches and not R.violations:
        R.violation('correspondence-broken', 'model (Py/Pattern.v matching) and pattern.py disagree',
                    {'no_failing_input_found': True,
                     'theorem_or_correspondence': f'correspondence mlref_py vs pattern.match_single/match/Notation (configuration {PS.flagstr(cfg)})',
                     'first_mismatches': mismatches[:5]})
    R.notes.append({'tie_mismatches': nmis, 'oracle_failures': nfail})
    R.coverage['rule'] = ('(pattern, sigma) -> instance triples in three notation presentations, mutated non-instances, seeds '
                          '(consistent / conflicting), equation lists incl. ground equations (empty solution), every shipped '
                          'notation + families + 12 generated ones at random argument tuples; distinct = distinct request; '
                          'all are non-trivial (each exercises match_single)')
    return R.finish(level='proof', trusted_base=C.TRUSTED_COMMON + [
        'translators/pypattern.py (Python ast -> coq/Gen/PyPattern.v, fail closed; dynamic dispatch = generated recursive call)',
        'harness/impl/pat_runner.py + harness/pycodec.py (term codec), harness/pygen.py reference expansion and '
        'first-order matcher (oracle only)',
        'frozendict/dict keys are unique and iterate in insertion order (modelled as association lists); '
        'match_single mutating its `extend` argument in place is not modelled (only the returned dict is)'])


def replay(path):
    d = json.load(open(path))
    rp = d.get('replay', d)
    if 'op' not in rp:
        print(json.dumps(d, indent=1)[:4000])
        return 0
    sides = PS.Sides()
    cfg = PS.expected_config()
    c = PS.make_case(rp['op'], rp['args'], sides.notn_by_id)
    drop = not cfg['f_mv_keep_subst']
    i = sides.impl([c.req])[0]
    print('request        :', c.op, c.args)
    print('implementation :', i)
    print(f'model {PS.flagstr(cfg)}   :', sides.model([c.req], cfg)[0])
    print('model sound    :', sides.model([c.req], PS.SOUND)[0])
    print('property wants :', c.spec(drop))
    try:
        got = c.post(i, drop)
    except PS.BadAnswer:
        got = i
    print('implementation gives (after expansion):', got)
    ok = (got == c.spec(drop))
    print('HOLDS' if ok else 'VIOLATED')
    return 0 if ok else 1

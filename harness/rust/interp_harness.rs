// ---- appended by /verif (scratch copy only; never written to /repo): multi-phase state dump for C04/C03
pub mod interp_harness {
    extern crate std;
    use super::*;
    use std::string::String;
    use std::vec::Vec;
    use std::format;

    fn unhex(s: &str) -> Vec<u8> {
        if s == "-" { return Vec::new(); }
        let b = s.as_bytes();
        let mut v = Vec::with_capacity(b.len() / 2);
        let h = |c: u8| -> u8 { match c { b'0'..=b'9' => c - b'0', b'a'..=b'f' => c - b'a' + 10, _ => panic!("hex") } };
        let mut i = 0;
        while i + 1 < b.len() { v.push(h(b[i]) * 16 + h(b[i + 1])); i += 2; }
        v
    }
    fn enc(p: &Pattern, out: &mut Vec<u32>) {
        match p {
            Pattern::EVar(n) => { out.push(0); out.push(*n as u32) }
            Pattern::SVar(n) => { out.push(1); out.push(*n as u32) }
            Pattern::Symbol(n) => { out.push(2); out.push(*n as u32) }
            Pattern::Implies { left, right } => { out.push(3); enc(left, out); enc(right, out) }
            Pattern::App { left, right } => { out.push(4); enc(left, out); enc(right, out) }
            Pattern::Exists { var, subpattern } => { out.push(5); out.push(*var as u32); enc(subpattern, out) }
            Pattern::Mu { var, subpattern } => { out.push(6); out.push(*var as u32); enc(subpattern, out) }
            Pattern::MetaVar { id, e_fresh, s_fresh, positive, negative, app_ctx_holes } => {
                out.push(7); out.push(*id as u32);
                for l in [e_fresh, s_fresh, positive, negative, app_ctx_holes] { out.push(l.len() as u32); for x in l.iter() { out.push(*x as u32) } }
            }
            Pattern::ESubst { pattern, evar_id, plug } => { out.push(8); enc(pattern, out); out.push(*evar_id as u32); enc(plug, out) }
            Pattern::SSubst { pattern, svar_id, plug } => { out.push(9); enc(pattern, out); out.push(*svar_id as u32); enc(plug, out) }
        }
    }
    fn show(p: &Pattern) -> String {
        let mut o = Vec::new(); enc(p, &mut o);
        let s: Vec<String> = o.iter().map(|x| format!("{}", x)).collect();
        s.join(".")
    }
    fn show_term(t: &Term) -> String { match t { Term::Pattern(p) => format!("P{}", show(p)), Term::Proved(p) => format!("T{}", show(p)) } }
    fn show_entry(t: &Entry) -> String { match t { Entry::Pattern(p) => format!("P{}", show(p)), Entry::Proved(p) => format!("T{}", show(p)) } }
    fn show_state(stack: &Stack, memory: &Memory, claims: &Claims) -> String {
        // stack printed top first, memory index 0 first, claims last-pushed first
        let s: Vec<String> = stack.iter().rev().map(show_term).collect();
        let m: Vec<String> = memory.iter().map(show_entry).collect();
        let c: Vec<String> = claims.iter().rev().map(|p| show(p)).collect();
        format!("S[{}] M[{}] C[{}]", s.join(","), m.join(","), c.join(","))
    }

    /// `X <G|C|P> <hexG> <hexC> <hexP>`: the gamma file, then (stack cleared) the claim file, then
    /// (stack cleared) the proof file, up to and including the named phase; prints the state.
    /// `V <hexG> <hexC> <hexP>`: the real entry point `verify`.
    pub fn run_line(line: &str) -> String {
        let f: Vec<&str> = line.split_whitespace().collect();
        match f[0] {
            "X" => {
                let (g, c, p) = (unhex(f[2]), unhex(f[3]), unhex(f[4]));
                let mut claims: Claims = vec![]; let mut memory: Memory = vec![]; let mut stack: Stack = vec![];
                execute_instructions(&g, &mut stack, &mut memory, &mut claims, ExecutionPhase::Gamma);
                if f[1] != "G" {
                    stack.clear();
                    execute_instructions(&c, &mut stack, &mut memory, &mut claims, ExecutionPhase::Claim);
                    if f[1] != "C" {
                        stack.clear();
                        execute_instructions(&p, &mut stack, &mut memory, &mut claims, ExecutionPhase::Proof);
                    }
                }
                format!("{}", show_state(&stack, &memory, &claims))
            }
            "V" => {
                let (g, c, p) = (unhex(f[1]), unhex(f[2]), unhex(f[3]));
                verify(&g, &c, &p);
                String::from("ACCEPT")
            }
            _ => panic!("bad request"),
        }
    }
}


// ---- appended by /verif (scratch copy only; never written to /repo) -------------------------
pub mod verif_harness {
    extern crate std;
    use super::*;
    use std::string::String;
    use std::vec::Vec;
    use std::format;

    fn unhex(s: &str) -> Vec<u8> {
        if s == "-" { return Vec::new(); }
        let b = s.as_bytes();
        let mut v = Vec::with_capacity(b.len() / 2);
        let h = |c: u8| -> u8 { match c { b'0'..=b'9' => c - b'0', b'a'..=b'f' => c - b'a' + 10, _ => panic!("hex") } };
        let mut i = 0;
        while i + 1 < b.len() { v.push(h(b[i]) * 16 + h(b[i + 1])); i += 2; }
        v
    }
    fn hex(v: &[u8]) -> String {
        if v.is_empty() { return String::from("-"); }
        let mut s = String::new();
        for b in v { s.push_str(&format!("{:02x}", b)); }
        s
    }
    // private prefix codec for patterns (not the proof format): tag bytes 0..9
    fn dec(b: &[u8], i: &mut usize) -> Rc<Pattern> {
        let t = b[*i]; *i += 1;
        let mut byte = |i: &mut usize| { let x = b[*i]; *i += 1; x };
        match t {
            0 => { let n = byte(i); evar(n) }
            1 => { let n = byte(i); svar(n) }
            2 => { let n = byte(i); symbol(n) }
            3 => { let l = dec(b, i); let r = dec(b, i); implies(l, r) }
            4 => { let l = dec(b, i); let r = dec(b, i); app(l, r) }
            5 => { let x = byte(i); let p = dec(b, i); exists(x, p) }
            6 => { let x = byte(i); let p = dec(b, i); mu(x, p) }
            7 => {
                let id = byte(i);
                let mut ls: Vec<Vec<u8>> = Vec::new();
                for _ in 0..5 { let n = byte(i) as usize; let mut v = Vec::new(); for _ in 0..n { v.push(byte(i)); } ls.push(v); }
                Rc::new(Pattern::MetaVar { id, e_fresh: ls[0].clone(), s_fresh: ls[1].clone(), positive: ls[2].clone(), negative: ls[3].clone(), app_ctx_holes: ls[4].clone() })
            }
            8 => { let p = dec(b, i); let x = byte(i); let q = dec(b, i); esubst(p, x, q) }
            9 => { let p = dec(b, i); let x = byte(i); let q = dec(b, i); ssubst(p, x, q) }
            _ => panic!("bad tag"),
        }
    }
    fn enc(p: &Pattern, out: &mut Vec<u8>) {
        match p {
            Pattern::EVar(n) => { out.push(0); out.push(*n) }
            Pattern::SVar(n) => { out.push(1); out.push(*n) }
            Pattern::Symbol(n) => { out.push(2); out.push(*n) }
            Pattern::Implies { left, right } => { out.push(3); enc(left, out); enc(right, out) }
            Pattern::App { left, right } => { out.push(4); enc(left, out); enc(right, out) }
            Pattern::Exists { var, subpattern } => { out.push(5); out.push(*var); enc(subpattern, out) }
            Pattern::Mu { var, subpattern } => { out.push(6); out.push(*var); enc(subpattern, out) }
            Pattern::MetaVar { id, e_fresh, s_fresh, positive, negative, app_ctx_holes } => {
                out.push(7); out.push(*id);
                for l in [e_fresh, s_fresh, positive, negative, app_ctx_holes] { out.push(l.len() as u8); for x in l.iter() { out.push(*x) } }
            }
            Pattern::ESubst { pattern, evar_id, plug } => { out.push(8); enc(pattern, out); out.push(*evar_id); enc(plug, out) }
            Pattern::SSubst { pattern, svar_id, plug } => { out.push(9); enc(pattern, out); out.push(*svar_id); enc(plug, out) }
        }
    }
    fn pat_of(s: &str) -> Rc<Pattern> { let b = unhex(s); let mut i = 0; dec(&b, &mut i) }
    fn show(p: &Pattern) -> String { let mut o = Vec::new(); enc(p, &mut o); hex(&o) }
    fn show_term(t: &Term) -> String { match t { Term::Pattern(p) => format!("P{}", show(p)), Term::Proved(p) => format!("T{}", show(p)) } }
    fn show_entry(t: &Entry) -> String { match t { Entry::Pattern(p) => format!("P{}", show(p)), Entry::Proved(p) => format!("T{}", show(p)) } }
    fn show_state(stack: &Stack, memory: &Memory, claims: &Claims) -> String {
        // stack printed top first, memory index 0 first, claims last-pushed first
        let s: Vec<String> = stack.iter().rev().map(show_term).collect();
        let m: Vec<String> = memory.iter().map(show_entry).collect();
        let c: Vec<String> = claims.iter().rev().map(|p| show(p)).collect();
        format!("S[{}] M[{}] C[{}]", s.join(","), m.join(","), c.join(","))
    }
    fn phase_of(s: &str) -> ExecutionPhase { match s { "G" => ExecutionPhase::Gamma, "C" => ExecutionPhase::Claim, _ => ExecutionPhase::Proof } }

    /// one request line -> one response line; panics propagate to the caller (REJECT/PANIC)
    pub fn run_line(line: &str) -> String {
        let f: Vec<&str> = line.split_whitespace().collect();
        match f[0] {
            "V" => {
                // same sequence as `verify`, but keeps the final state for printing
                let (g, c, p) = (unhex(f[1]), unhex(f[2]), unhex(f[3]));
                // the verdict comes from the real entry point alone (a panic propagates => REJECT)
                verify(&g, &c, &p);
                // the final state is not returned by verify(): replay the three phases (as the documented machine
                // sequences them) to print it; if that replay diverges from what verify() just did, say so
                let replay = std::panic::catch_unwind(std::panic::AssertUnwindSafe(|| {
                    let mut claims: Claims = vec![]; let mut memory: Memory = vec![]; let mut stack: Stack = vec![];
                    execute_instructions(&g, &mut stack, &mut memory, &mut claims, ExecutionPhase::Gamma);
                    stack.clear();
                    execute_instructions(&c, &mut stack, &mut memory, &mut claims, ExecutionPhase::Claim);
                    stack.clear();
                    execute_instructions(&p, &mut stack, &mut memory, &mut claims, ExecutionPhase::Proof);
                    show_state(&stack, &memory, &claims)
                }));
                match replay { Ok(st) => format!("ACCEPT {}", st), Err(_) => String::from("ACCEPT <phase-replay-diverged>") }
            }
            "E" => {
                let b = unhex(f[2]);
                let mut claims: Claims = vec![]; let mut memory: Memory = vec![]; let mut stack: Stack = vec![];
                execute_instructions(&b, &mut stack, &mut memory, &mut claims, phase_of(f[1]));
                format!("OK {}", show_state(&stack, &memory, &claims))
            }
            "F" => {
                let p = pat_of(f[1]); let x: u8 = f[2].parse().unwrap();
                format!("{}{}{}{}", p.e_fresh(x) as u8, p.s_fresh(x) as u8, p.positive(x) as u8, p.negative(x) as u8)
            }
            "W" => { let p = pat_of(f[1]); format!("{}", p.well_formed() as u8) }
            "SE" => { let p = pat_of(f[1]); let x: u8 = f[2].parse().unwrap(); let q = pat_of(f[3]); show(&apply_esubst(&p, x, &q)) }
            "SS" => { let p = pat_of(f[1]); let x: u8 = f[2].parse().unwrap(); let q = pat_of(f[3]); show(&apply_ssubst(&p, x, &q)) }
            "I" => {
                let mut p = pat_of(f[1]); let ids = unhex(f[2]);
                let plugs: Vec<Rc<Pattern>> = f[3..].iter().map(|s| pat_of(s)).collect();
                instantiate_in_place(&mut p, &ids, &plugs);
                show(&p)
            }
            "Q" => { // pattern equality
                let p = pat_of(f[1]); let q = pat_of(f[2]); format!("{}", (p == q) as u8)
            }
            _ => panic!("bad request"),
        }
    }
}

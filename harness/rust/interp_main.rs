use std::io::{self, BufRead, Write};
use std::panic;
fn main() {
    panic::set_hook(Box::new(|_| {}));
    let stdin = io::stdin();
    let out = io::stdout();
    let mut out = io::BufWriter::new(out.lock());
    for line in stdin.lock().lines() {
        let line = line.unwrap();
        if line.trim().is_empty() { continue; }
        let l = line.clone();
        let r = panic::catch_unwind(move || checker::interp_harness::run_line(&l));
        match r { Ok(s) => writeln!(out, "{}", s).unwrap(), Err(_) => writeln!(out, "REJECT").unwrap() }
    }
}

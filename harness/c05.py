"""C05 — the checker implements the documented machine.

proof : coq/Props/C05.v (refinement doc <-> checker, reject_* lemmas, opcode tables regenerated from the sources)
tie   : Rust checker vs extracted checker model AND vs extracted documented machine; real binary's exit status sampled
"""
import json
import os
import subprocess
import sys

import common as C
import mlgen as G
import mltie as T

CID = 'C05'
D16_SIG = 'doc-rejects-checker-accepts:instantiate-or-substitution-result-not-well-formed'


def regen():
    return T.regen_gen()


def setup():
    regen()
    T.build_model()


def run(tier, seed):
    R = C.Report(CID, tier, seed)
    rng = C.rng_for(seed, CID)
    quick = tier == 'quick'
    ok_tr, tr_msg = regen()
    P = R.proof_stage()
    if not ok_tr:
        P['ok'] = False
        P['log'] = 'translator failed closed: ' + tr_msg
        P['discharged'] = 0     # the regenerated model could not be produced: nothing is proved about the current source
    tie = T.Tie(R)
    if not tie.ready:
        R.violation('tie-build-failed', 'could not build model or Rust harness',
                    {'no_failing_input_found': True, 'theorem_or_correspondence': 'build of mlref_ml / rsref',
                     'model_log': tie.model_log, 'rust_log': tie.rust_log})
        return R.finish(trusted_base=C.TRUSTED_COMMON)

    corpus = [('E P ' + G.hexs([9, 1, 1, 0, 0, 0, 0, 0, 4, 1, 137, 0, 10, 0, 26, 1, 0]), 'corpus:D16-redundant-after-instantiate'),
              ('E P 0c1a03', 'corpus:D2-truncated-instantiate'), ('E P 0c1a020001', 'corpus:D2-truncated-instantiate-b'),
              ('E P 00', 'corpus:byte0'), ('E P 1f', 'corpus:byte31'), ('E P 1d00', 'corpus:load-empty-memory'),
              ('V - 89001e -', 'corpus:unproved-claim')]
    cases = corpus + T.adversarial_cases(rng, 300 if quick else 3000)
    cases += T.program_cases(rng, 6000 if quick else 400000, 6000 if quick else 400000, 12000 if quick else 1200000,
                             2 if quick else 3)
    lines = [c[0] for c in cases]
    labels = [c[1] for c in cases]
    m, r = tie.compare(lines, labels)
    # documented machine on the same requests
    dl = ['D' + ln for ln in lines]
    d = C.run_lines_parallel(tie.mlref, dl)
    d16 = []
    doc_other = []
    for ln, lab, mo, ro, do in zip(lines, labels, m, r, d):
        acc = ro.startswith('ACCEPT') or ro.startswith('OK')
        R.case(ln, nontrivial=True, kind=lab.split(':')[0] + (':acc' if acc else ':rej'))
        if do != ro:
            if mo == ro and acc and do == 'REJECT':
                d16.append((ln, lab))
            else:
                doc_other.append((ln, lab, do, ro))
    for ln, lab in d16[:1]:
        R.violation(D16_SIG, 'the checker accepts a stream the documented machine rejects: an Instantiate/Substitution result '
                    'contains a redundant or ill-shaped ESubst/SSubst that docs/proof-language.md calls ill-formed',
                    {'request': ln, 'label': lab, 'count_in_this_run': len(d16)})
    for ln, lab, do, ro in doc_other[:3]:
        if not any(mm[0] == ln for mm in tie.mismatches):
            R.violation('doc-vs-checker:' + lab.split(':')[0], 'documented machine and Rust checker disagree outside the known class',
                        {'request': ln, 'label': lab, 'documented_machine': do, 'rust': ro})
    R.hist['doc_rejects_checker_accepts(D16 class)'] = len(d16)

    # the real binary's exit status on a sample
    if tie.realbin:
        dd = C.scratch_dir('pi2bin.')
        agree = 0
        vlines = [(ln, r[k]) for k, ln in enumerate(lines) if ln.startswith('V ')]
        nmax = 150 if quick else 1500
        try:
            unknown_main = 'UNRECOGNISED' in open(os.path.join(C.COQ, 'Gen', 'Exec.v')).read(600)
        except OSError:
            unknown_main = True
        if unknown_main:
            nmax *= 4       # main.rs is tied by this stage only; its shape is not the known one: sample more
            R.notes.append('rust/src/main.rs has an unrecognised shape: the exit-status stage samples 4x as many inputs')
        accs = [x for x in vlines if x[1].startswith('ACCEPT')]
        rejs = [x for x in vlines if not x[1].startswith('ACCEPT')]
        sample = accs[:nmax // 2] + rejs[:nmax - min(len(accs), nmax // 2)]
        two_arg = 0
        for k, (ln, verdict) in enumerate(sample):
            f = ln.split()
            paths = []
            for j, h in enumerate(f[1:4]):
                pth = os.path.join(dd, f'{j}.bin')
                with open(pth, 'wb') as fh:
                    fh.write(bytes(G.unhex(h)))
                paths.append(pth)
            exp = verdict.startswith('ACCEPT')
            forms = [paths]
            if f[2] == '-':
                forms.append([paths[0], paths[2]])      # `checker gamma proof`: the claim file is /dev/null
                two_arg += 1
            for args in forms:
                rc = subprocess.run([tie.realbin, *args], capture_output=True).returncode
                if (rc == 0) == exp:
                    agree += 1
                else:
                    R.violation('binary-exit-status', 'real main.rs exit status disagrees with verify() verdict',
                                {'request': ln, 'argv': len(args), 'exit_code': rc, 'harness_verdict': verdict})
        # the driver's own error paths: wrong number of arguments, unreadable file -> never exit status 0
        ok_file = os.path.join(dd, 'empty.bin')
        open(ok_file, 'wb').close()
        for args, what in (([], 'no arguments'), ([ok_file], 'one argument'), ([ok_file] * 4, 'four arguments'),
                           ([os.path.join(dd, 'missing.bin'), ok_file, ok_file], 'missing gamma file'),
                           ([ok_file, os.path.join(dd, 'missing.bin'), ok_file], 'missing claim file'),
                           ([ok_file, ok_file, os.path.join(dd, 'missing.bin')], 'missing proof file'),
                           ([ok_file, os.path.join(dd, 'missing.bin')], 'missing proof file (two-argument form)')):
            rc = subprocess.run([tie.realbin, *args], capture_output=True).returncode
            if rc == 0:
                R.violation('binary-exit-status:driver-error-ignored', f'real main.rs exits 0 on {what}', {'argv': args, 'exit_code': rc})
            else:
                agree += 1
        # three empty files: accepted (no claims, nothing to prove) in both forms
        for args in ([ok_file, ok_file, ok_file], [ok_file, ok_file]):
            rc = subprocess.run([tie.realbin, *args], capture_output=True).returncode
            if rc != 0:
                R.violation('binary-exit-status:empty-input-rejected', 'real main.rs rejects empty gamma/claims/proof', {'argv': len(args), 'exit_code': rc})
            else:
                agree += 1
        R.hist['real_binary_two_argument_form_sampled'] = two_arg
        R.hist['real_binary_exit_status_agreeing'] = agree
        R.hist['real_binary_exit_status_sampled'] = len(sample)
    else:
        R.notes.append('real main.rs did not build; exit-status sampling skipped')

    for c in cases[:2] + cases[400:403]:
        R.sample({'request': c[0], 'label': c[1]})
    real_viol = [v for v in R.violations]
    if tie.mismatches and not real_viol:
        # search: which malformed-input class is now accepted?
        acc_now = [(a, b, c, d) for a, b, c, d in tie.mismatches if (c.startswith('ACCEPT') or c.startswith('OK')) and b == 'REJECT']
        why = tie.diagnose()
        rej_now = [(a, b, c, d) for a, b, c, d in tie.mismatches if c == 'REJECT' and (b.startswith('ACCEPT') or b.startswith('OK'))]
        if acc_now:
            a, b, c, dlab = acc_now[0]
            R.violation('malformed-input-accepted:' + dlab.split(':')[0], 'the Rust checker accepts input the documented machine / model rejects',
                        {'request': a, 'label': dlab, 'model': b, 'rust': c, 'implementation_behaves_like_model_without_guard': why})
        if rej_now:
            a, b, c, dlab = rej_now[0]
            R.violation('valid-input-rejected:' + dlab.split(':')[0], 'the Rust checker rejects input the documented machine / model accepts',
                        {'request': a, 'label': dlab, 'model': b, 'rust': c})
        if not acc_now and not rej_now:
            R.violation('correspondence-broken', 'Rust checker and coq/ML model (guards_sound) disagree',
                        {'no_failing_input_found': True, 'theorem_or_correspondence': 'correspondence rust/src/lib.rs <-> coq/ML/Machine.v (guards_sound)',
                         'implementation_behaves_like_model_without_guard': why,
                         'first_mismatches': [dict(request=a, model=b, rust=c, label=dl_) for a, b, c, dl_ in tie.mismatches[:5]]})
    if not P['ok'] and not R.violations:
        R.violation('proof-broken', 'Coq proof stage failed (or translator failed closed)',
                    {'no_failing_input_found': True, 'theorem_or_correspondence': 'Props/C05.v / Gen/Opcodes.v', 'log': P['log']})
    R.coverage['rule'] = ('byte strings for the three phases: grammar-built valid triples, type-directed random programs, 1-3 byte '
                          f'mutations of valid triples, exhaustive programs up to length {2 if quick else 3} over the opcode alphabet '
                          '(+ operand bytes 0,1,2,255), adversarial rule interleavings, corpus of malformed inputs; every case is run on the '
                          'Rust checker, the checker model and the documented-machine model and verdict + final stack/memory/claims compared; '
                          'distinct by request line')
    R.coverage['traces_validated_against_impl'] = len(lines)
    return R.finish(trusted_base=C.TRUSTED_COMMON + [
        'translators/opcodes.py (regex/ast reader of Instruction::from, the execute_instructions match arms and instruction.py)',
        'harness/rust/harness.rs + main.rs (request parser, state printer, catch_unwind => REJECT)',
        'Doc/Machine.v is a hand transcription of docs/proof-language.md; readings of open points listed in Doc/Deviations.v'])


def replay(path):
    dct = json.load(open(path))
    print(json.dumps(dct, indent=1)[:3000])
    req = dct.get('replay', {}).get('request')
    if req:
        tie = T.Tie(None)
        print('rust :', C.run_lines(tie.rsref, [req]))
        print('model:', C.run_lines(tie.mlref, [req]))
        print('doc  :', C.run_lines(tie.mlref, ['D' + req]))
    return 0

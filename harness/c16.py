"""C16 — Valid Metamath proofs translate to checkable proofs of the same statement.

proof stage : coq/Props/C16.v (step simulation lemmas, C16_translate, C16_compression_irrelevant, witnesses)
tie stage   : generated databases of the fragment (forward prover, three proof layouts) + mutants +
              shipped benchmarks + corpus; extracted model (ocaml/mlref_mm16) vs the real
              `metamath.translate.main` run in-process (harness/impl/mm16_runner.py), byte for byte;
              the model's reference verifier vs an independent token-level Metamath verifier;
              the model's checker verdict vs the Rust checker.
oracle      : independent verifier says "valid" => translation must succeed, Rust must ACCEPT both the
              unoptimised and the optimised files, the published claim/axioms decoded from the Rust state
              must be the structural images; the three layouts must agree.
"""
import json
import os
import re
from concurrent.futures import ThreadPoolExecutor

import common as C
import c16_gen as G
import c16_mmverify as MV

CID = 'C16'
BENCH = os.path.join(C.REPO, 'generation', 'mm-benchmarks')
CORPUS = os.path.join(C.VERIF, 'harness', 'corpus', CID)
QUICK_BENCH = ['impreflex.mm', 'impreflex-compressed.mm', 'impreflex-compressed-goal.mm', 'transfer-task-specific.mm',
               'transfer-simple-compressed-goal.mm', 'transfer-goal.mm', 'disjointness-alt-lemma.mm']
THOROUGH_BENCH = QUICK_BENCH + ['transfer-simple-goal.mm', 'perceptron-goal.mm', 'svm5-goal.mm', 'transfer-batch-1k-goal.mm',
                                'transfer-largest-slice.mm', 'perceptron.mm', 'svm5.mm', 'transfer5000.mm']


def regen_gen():
    """regenerate coq/Gen/MMTranslate.v from the CURRENT translate.py / converter.py (fail closed)"""
    import sys
    sys.path.insert(0, os.path.join(C.VERIF, 'translators'))
    import mm_translate
    try:
        text = mm_translate.generate(C.REPO)
        C.write_if_changed(os.path.join(C.COQ, 'Gen', 'MMTranslate.v'), text)
        return True, ''
    except SystemExit as e:
        return False, str(e)
    except Exception as e:  # noqa: BLE001
        return False, f'mm_translate: {e!r}'


def setup():
    regen_gen()
    build_model()


def build_model():
    return C.build_mlref('mm16', 'Extract/ExtractMM16.v', 'mm16_model', 'mm16_driver.ml', 'mlref_mm16',
                         ['MM16/Translate.vo', 'MM16/Fragment.vo'])


# ------------------------------------------------------------------------------------------------
# cases
# ------------------------------------------------------------------------------------------------

def shape_of(src):
    """features of a database text that identify the catalogued unsupported / mistranslated shapes, most
    specific cause first"""
    feats = []
    body = re.sub(r'\$\(.*?\$\)', ' ', src, flags=re.S)
    for m in re.finditer(r'\$=\s*(\S+)', body):
        if m.group(1) != '(':
            feats.append('normal-format-proof')
            break
    if re.search(r'\$a\s+#Notation\s[^$]*\(\s*\\mu\s', body):
        feats.append('mu-in-notation')
    if re.search(r'\$f\s+#(ElementVariable|SetVariable|Variable|Symbol)', body):
        feats.append('non-pattern-floats')
    if '$d' in body.split():
        feats.append('disjoint-statement')
    quoted_pat = set(re.findall(r'\$a\s+#Pattern\s+("\S+")\s+\$\.', body))
    quoted_not = set(re.findall(r'\$a\s+#Notation\s+("\S+")\s', body))
    if quoted_pat & quoted_not:
        feats.append('quoted-constant-with-notation')
    return feats


def noncanonical_builtins(db):
    """the five labels exec_proof recognises by spelling, stated other than canonically over their mandatory
    variables in $f order"""
    V, A, imp = G.V, G.A, G.imp
    bad = []
    for a in db.assertions():
        vs = [v for _, v in db.mand_floats(a)]
        t = a.terms[0] if a.terms else None
        if a.label in ('imp-is-pattern', 'app-is-pattern') and a.tc == '#Pattern':
            c = G.IMP if a.label.startswith('imp') else G.APP
            if len(vs) != 2 or t != A(c, V(vs[0]), V(vs[1])):
                bad.append(a.label)
        elif a.label == 'proof-rule-prop-1' and a.tc == '|-':
            if len(vs) != 2 or a.ess or t != imp(V(vs[0]), imp(V(vs[1]), V(vs[0]))):
                bad.append(a.label)
        elif a.label == 'proof-rule-prop-2' and a.tc == '|-':
            if len(vs) != 3 or a.ess:
                bad.append(a.label)
            else:
                x, y, z = (V(v) for v in vs)
                if t != imp(imp(x, imp(y, z)), imp(imp(x, y), imp(x, z))):
                    bad.append(a.label)
        elif a.label == 'proof-rule-mp' and a.tc == '|-':
            if len(vs) != 2 or t != V(vs[1]) or [e for _, e in a.ess] != [imp(V(vs[0]), V(vs[1])), V(vs[0])]:
                bad.append(a.label)
        elif a.label.startswith('proof-rule-') and a.tc == '|-':
            bad.append(a.label)
    return bad


def mk_case(name, src, target, kind, db=None, proofs=None, info=None):
    c = dict(name=name, src=src, target=target, kind=kind, info=info or {}, tk=None, tl=None, db=db)
    if db is not None:
        tk, lab = db.encode(lambda l: proofs[l])
        c['tk'] = ' '.join(tk)
        c['tl'] = lab(target)
    return c


def gen_cases(seed, n, n_mut):
    cases = []
    for i in range(n):
        rng = C.rng_for(seed, f'{CID}:db:{i}')
        db, target, node, info = G.gen_database(rng, i)
        tree = G.rpn_tree(db, node)
        # a second $p (not referenced by the target) in some databases: in the fragment since repair D16a
        extra = None
        if rng.random() < 0.2:
            extra = G.Assertion('other-%d' % i, '|-', [G.imp(G.V(db.floats()[0][1]), G.imp(G.V(db.floats()[1][1]), G.V(db.floats()[0][1])))])
            pos = len(db.items) - 1 if rng.random() < 0.5 else len(db.items)
            db.items.insert(pos, ('p', extra, None))
            info['two_p'] = 'before' if pos == len(db.items) - 2 else 'after'
        group = []
        for mode in ('noz', 'z', 'zrand'):
            pl, nums = G.compress(db, target, tree, mode, rng)
            proofs = {target.label: (pl, nums)}
            texts = {target.label: G.proof_text(pl, nums, rng)}
            if extra is not None:
                fl = [l for l, _ in db.mand_floats(extra)]
                proofs[extra.label] = (['proof-rule-prop-1'], [1, 2, 3])
                texts[extra.label] = '( proof-rule-prop-1 ) ABC'
            src = db.text(lambda l: texts[l])
            inf = dict(info, layout=mode, nsteps=len(nums), nz=nums.count(0),
                       nback=sum(1 for x in nums if x > len(pl) + len(db.mand_floats(target))),
                       uses=sorted({l.split('-')[0] if not l.startswith('proof-rule') else l for l in pl}))
            c = mk_case(f'gen{i}:{mode}', src, target.label, 'generated', db, proofs, inf)
            c['group'] = i
            group.append((c, pl, nums))
            cases.append(c)
        # mutants of the proof (mostly invalid): exercised for the verifier tie and the failure paths
        if i < n_mut:
            c0, pl, nums = group[rng.randrange(3)]
            m = list(nums)
            how = rng.choice(['drop', 'swap', 'relabel', 'dup'])
            if how == 'drop' and len(m) > 1:
                del m[rng.randrange(len(m))]
            elif how == 'swap' and len(m) > 1:
                j = rng.randrange(len(m) - 1)
                m[j], m[j + 1] = m[j + 1], m[j]
            elif how == 'relabel':
                j = rng.randrange(len(m))
                m[j] = rng.randint(1, len(pl) + len(db.mand_floats(target)) + 1)
            else:
                j = rng.randrange(len(m))
                m.insert(j, m[j])
            if m != nums:
                proofs = {target.label: (pl, m)}
                texts = {target.label: G.proof_text(pl, m)}
                if extra is not None:
                    proofs[extra.label] = (['proof-rule-prop-1'], [1, 2, 3])
                    texts[extra.label] = '( proof-rule-prop-1 ) ABC'
                src = db.text(lambda l: texts[l])
                cases.append(mk_case(f'gen{i}:mut-{how}', src, target.label, 'mutant', db, proofs, dict(info, layout='mutant:' + how)))
    return cases


def big_marked_case(seed):
    """one long derivation whose compressed proof has more than 120 marked steps, so that step numbers need three letters
    (the two-letter range ends at 120): exercises convert_to_number beyond 120 inside C16's own tie"""
    rng = C.rng_for(seed, f'{CID}:big')
    V, A, imp = G.V, G.A, G.imp
    db = G.Database()
    db.vars = ['ph0', 'ph1', 'ph2']
    for v in db.vars:
        db.items.append(('f', v + '-is-pattern', v))
    db.consts = ['\\k0']
    p0, p1, p2 = V('ph0'), V('ph1'), V('ph2')
    ctor = G.Assertion('imp-is-pattern', '#Pattern', [imp(p0, p1)])
    k0 = G.Assertion('k0-is-pattern', '#Pattern', [A('\\k0')])
    pr1 = G.Assertion('proof-rule-prop-1', '|-', [imp(p0, imp(p1, p0))])
    mp = G.Assertion('proof-rule-mp', '|-', [p1], ess=[('proof-rule-mp.0', imp(p0, p1)), ('proof-rule-mp.1', p0)])
    for a in (ctor, k0, pr1, mp):
        db.items.append(('a', a))
    c = A('\\k0')
    node = G.Node(pr1, {'ph0': c, 'ph1': p0}, [])
    for i in range(125):
        b = rng.choice([c, p0, imp(p0, c), imp(c, p0)])
        n1 = G.Node(pr1, {'ph0': node.concl, 'ph1': b}, [])
        node = G.Node(mp, {'ph0': node.concl, 'ph1': imp(b, node.concl)}, [n1, node])
    target = G.Assertion('goal', '|-', [node.concl])
    db.items.append(('p', target, None))
    tree = G.rpn_tree(db, node)
    pl, nums = G.compress(db, target, tree, 'z', rng)
    proofs = {'goal': (pl, nums)}
    src = db.text(lambda l: G.proof_text(pl, nums, rng))
    c16 = mk_case('big:z', src, 'goal', 'generated', db, proofs,
                  dict(layout='z', nvars=len(target.vars()), nsteps=len(nums), nz=nums.count(0), max_number=max(nums), uses=['big']))
    c16['group'] = 'big'
    return c16


def file_cases(tier):
    cases = []
    for f in (QUICK_BENCH if tier == 'quick' else THOROUGH_BENCH):
        path = os.path.join(BENCH, f)
        if not os.path.exists(path):
            continue
        src = open(path).read()
        labs = re.findall(r'(\S+)\s+\$p', src)
        if not labs:
            continue
        cases.append(text_case('bench:' + f, src, labs[-1], 'benchmark'))
    if os.path.isdir(CORPUS):
        for f in sorted(os.listdir(CORPUS)):
            if f.endswith('.json'):
                d = json.load(open(os.path.join(CORPUS, f)))
                cases.append(text_case('corpus:' + f, d['src'], d['target'], 'corpus', d))
    return cases


def text_case(name, src, target, kind, extra=None):
    try:
        db, proofs = G.parse_mm(src)
        c = mk_case(name, src, target, kind, db, proofs, {'in_model': True})
    except G.OutOfModel as e:
        c = mk_case(name, src, target, kind, None, None, {'in_model': False, 'out_of_model': str(e)})
    except Exception as e:  # noqa: BLE001
        c = mk_case(name, src, target, kind, None, None, {'in_model': False, 'out_of_model': 'parse: ' + str(e)[:80]})
    if extra:
        c['corpus'] = extra
    return c


# ------------------------------------------------------------------------------------------------
# running
# ------------------------------------------------------------------------------------------------

def run_impl(cases):
    lines = [json.dumps({'src': c['src'], 'target': c['target']}) for c in cases]
    small = [i for i, c in enumerate(cases) if len(c['src']) < 20000]
    big = [i for i, c in enumerate(cases) if len(c['src']) >= 20000]
    nchunks = max(1, min(C.NCPU - 2, 12, len(small) // 20 + 1))
    chunks = [small[k::nchunks] for k in range(nchunks)] + [[i] for i in big]
    chunks = [ch for ch in chunks if ch]
    res = [None] * len(cases)

    def work(idx):
        out, err = C.run_py('mm16_runner.py', [lines[i] for i in idx], timeout=1500)
        return idx, out, err

    with ThreadPoolExecutor(max_workers=max(1, min(C.NCPU, len(chunks)))) as ex:
        for idx, out, err in ex.map(work, chunks):
            for k, i in enumerate(idx):
                try:
                    res[i] = json.loads(out[k])
                except Exception:  # noqa: BLE001
                    res[i] = {'ok': False, 'exc': 'runner-crash', 'fn': '', 'msg': err[-300:]}
    return res


def hexpat(p):
    """prefix codec of harness.rs / mm16_driver.ml"""
    t = p[0]
    if t in ('evar', 'svar', 'sym'):
        return '%02x%02x' % ({'evar': 0, 'svar': 1, 'sym': 2}[t], p[1])
    if t in ('imp', 'app'):
        return ('03' if t == 'imp' else '04') + hexpat(p[1]) + hexpat(p[2])
    if t in ('ex', 'mu'):
        return ('05' if t == 'ex' else '06') + '%02x' % p[1] + hexpat(p[2])
    if t == 'mvar':
        return '07%02x' % p[1] + ''.join('%02x' % len(l) + ''.join('%02x' % x for x in l) for l in p[2])
    raise ValueError(t)


def decode_phase(hexs, memory, gamma):
    """independent decoder of a Gamma/Claim phase file: returns the list of published patterns (hex, same
    codec as the Rust dump) and the memory after the phase; None if the bytes are not a pattern script"""
    b = bytes.fromhex('' if hexs == '-' else hexs)
    i, stack, pub = 0, [], []
    memory = list(memory)
    try:
        while i < len(b):
            op = b[i]
            i += 1
            if op in (2, 3, 4):
                stack.append(({2: 'evar', 3: 'svar', 4: 'sym'}[op], b[i]))
                i += 1
            elif op in (5, 6):
                r = stack.pop()
                l = stack.pop()
                stack.append(('imp' if op == 5 else 'app', l, r))
            elif op in (7, 8):
                q = stack.pop()
                stack.append(('mu' if op == 7 else 'ex', b[i], q))
                i += 1
            elif op == 137:
                stack.append(('mvar', b[i], [[], [], [], [], []]))
                i += 1
            elif op == 9:
                mid = b[i]
                i += 1
                ls = []
                for _ in range(5):
                    n = b[i]
                    ls.append(list(b[i + 1:i + 1 + n]))
                    i += 1 + n
                stack.append(('mvar', mid, ls))
            elif op == 27:
                stack.pop()
            elif op == 28:
                memory.append(stack[-1])
            elif op == 29:
                stack.append(memory[b[i]])
                i += 1
            elif op == 30:
                pub.append(stack.pop())
                if gamma:
                    memory.append(pub[-1])     # Publish in the Gamma phase also stores the axiom
            else:
                return None, memory
    except (IndexError, KeyError):
        return None, memory
    return [hexpat(p) for p in pub], memory


def rust_fields(line):
    """'ACCEPT S[..] M[..] C[..]' / 'OK S[..] M[..] C[..]' -> (verdict, stack, memory, claims) lists"""
    if not line or not (line.startswith('ACCEPT') or line.startswith('OK')):
        return ('REJECT', [], [], [])
    m = re.match(r'(\w+) S\[(.*?)\] M\[(.*?)\] C\[(.*?)\]', line)
    if not m:
        return ('REJECT', [], [], [])
    sp = lambda s: [x for x in s.split(',') if x]
    return (m.group(1), sp(m.group(2)), sp(m.group(3)), sp(m.group(4)))


def evaluate(R, cases, mlref, rsref, tier):
    """fills c['res'] for every case; returns (mismatches, prop_failures)"""
    # independent verifier
    for c in cases:
        ok, why, st = MV.check(c['src'], c['target'])
        c['oracle'] = ok
        c['oracle_why'] = why
    # model
    mc = [c for c in cases if c['tk'] is not None]
    req = []
    for c in mc:
        req += [f"V 0 {c['tl']} {c['tk']}", f"G 0 {c['tl']} {c['tk']}", f"X 0 {c['tl']} {c['tk']}"]
    out = C.run_lines_parallel(mlref, req) if req else []
    for k, c in enumerate(mc):
        v, g, x = (out[3 * k:3 * k + 3] + ['<missing>'] * 3)[:3]
        c['m_verify'] = v
        c['m_frag'] = g
        c['m_x'] = x
    # implementation
    impl = run_impl(cases)
    # Rust on the implementation's files
    rreq, rmap = [], []
    for i, (c, o) in enumerate(zip(cases, impl)):
        c['impl'] = o
        if o.get('ok'):
            for mode in ('plain', 'opt'):
                g, cl, p = o[mode]
                rreq += [f'V {g} {cl} {p}', f'E G {g}', f'E C {cl}']
                rmap.append((i, mode))
    rout = C.run_lines_parallel(rsref, rreq) if rreq else []
    for k, (i, mode) in enumerate(rmap):
        v, eg, ec = (rout[3 * k:3 * k + 3] + [''] * 3)[:3]
        g, cl, p = cases[i]['impl'][mode]
        axs, mem = decode_phase(g, [], True)
        cls, _ = decode_phase(cl, mem, False)
        d = dict(verdict=rust_fields(v)[0], axioms=axs, claims=list(reversed(cls)) if cls is not None else None)
        if mode == 'plain':
            # the Rust dump of the two phases must agree with the independent decoder on the unoptimised files
            d['rust_axioms'] = [x[1:] for x in rust_fields(eg)[2] if x.startswith('T')]
            d['rust_claims'] = rust_fields(ec)[3]
        cases[i]['rust_' + mode] = d

    mismatches, failures = [], []
    for c in cases:
        o = c['impl']
        feats = shape_of(c['src'])
        if c.get('db') is not None and noncanonical_builtins(c['db']):
            feats.insert(0, 'noncanonical-builtin-statement')
        valid = c['oracle']
        in_model = c['tk'] is not None
        frag = in_model and c.get('m_frag') == '1'
        info = c['info']
        # ---- tie 1: reference verifier model vs independent verifier
        if in_model and c['m_verify'] not in ('0', '1'):
            mismatches.append(('model-crash', c['name'], c['m_verify'][:200], ''))
        elif in_model and (c['m_verify'] == '1') != valid:
            mismatches.append(('verifier', c['name'], 'model mm_verify=' + c['m_verify'], f'oracle valid={valid} {c["oracle_why"]}'))
        # ---- tie 2: translator model vs implementation (unoptimised bytes), on every modelled input
        m_ok = in_model and c['m_x'].startswith('OK')
        tie_applies = frag        # outside in_fragment the model claims nothing (e.g. free metavariable in a notation body)
        if tie_applies:
            if m_ok != bool(o.get('ok')):
                mismatches.append(('translate-outcome', c['name'], c['m_x'][:120], json.dumps(o)[:300]))
            elif m_ok:
                mg, mcl, mp = c['m_x'].split()[1:4]
                if [mg, mcl, mp] != o['plain']:
                    which = [n for n, a, b in zip(('gamma', 'claim', 'proof'), (mg, mcl, mp), o['plain']) if a != b]
                    mismatches.append(('bytes:' + '+'.join(which), c['name'], ' '.join((mg, mcl, mp))[:400], ' '.join(o['plain'])[:400]))
                # tie 3: checker model vs Rust on the same bytes
                mver = 'ACCEPT' if ' ACCEPT ' in c['m_x'] else 'REJECT'
                if mver != c['rust_plain']['verdict']:
                    mismatches.append(('checker-verdict', c['name'], mver, c['rust_plain']['verdict']))
        # ---- property oracle on the implementation
        nontrivial = valid and o.get('ok')
        kind = f"{c['kind']}:{info.get('layout', '-')}:{'valid' if valid else 'invalid'}:" + \
               ('translated' if o.get('ok') else 'raises-' + o.get('exc', '?').split()[0])
        R.case((c['src'], c['target']), nontrivial=bool(nontrivial), kind=kind)
        if c['kind'] == 'generated':
            R.hist['target_metavars=%s' % info.get('nvars')] = R.hist.get('target_metavars=%s' % info.get('nvars'), 0) + 1
            R.hist['rule_vars=%s' % info.get('rule_vars')] = R.hist.get('rule_vars=%s' % info.get('rule_vars'), 0) + 1
            for u in info.get('uses', []):
                R.hist['uses:' + u] = R.hist.get('uses:' + u, 0) + 1
        if not valid:
            continue
        where = 'in-fragment' if frag else (feats[0] if feats else ('outside-model' if not in_model else 'outside-fragment'))
        if not o.get('ok'):
            exc = o.get('exc', '?')
            if exc.startswith('NotImplementedError') and not frag:
                R.hist['declared-unsupported:' + '+'.join(feats or [where])] = R.hist.get('declared-unsupported:' + '+'.join(feats or [where]), 0) + 1
                if 'normal-format-proof' not in feats:
                    continue
            if not frag and not feats and c['kind'] in ('generated', 'mutant'):
                # valid but outside the fragment and without a catalogued shape (e.g. free metavariable in a
                # notation body): not in the property's scope
                R.hist['valid-outside-fragment-fails'] = R.hist.get('valid-outside-fragment-fails', 0) + 1
                continue
            # for a catalogued shape the signature names the shape and the exception class only (function names change under
            # refactoring); in-fragment failures keep the raising function to tell different defects apart
            sig = (f"translate-raises:{exc.split()[0]}@{o.get('fn', '?')}:{where}" if where == 'in-fragment'
                   else f"translate-raises:{exc.split()[0]}:{where}")
            failures.append((sig, c, f'valid Metamath proof, translation raised {exc}: {o.get("msg", "")[:200]}'))
            continue
        for mode in ('plain', 'opt'):
            r = c['rust_' + mode]
            if r['verdict'] != 'ACCEPT':
                failures.append((f'rust-rejects:{where}', c, f'valid proof translated, Rust checker REJECTS the {mode} files'))
                continue
            if mode == 'plain' and frag and (r['rust_axioms'] != r['axioms'] or r['rust_claims'] != r['claims']):
                failures.append((f'decoder-disagrees-with-rust:{where}', c, f'{r["rust_axioms"]} {r["rust_claims"]} vs {r["axioms"]} {r["claims"]}'))
            if (r['claims'] is None or len(r['claims']) != 1) and frag:
                failures.append((f'claims-count:{mode}:{where}', c, f'{r["claims"]} claims published'))
            if m_ok and frag:
                cl = c['m_x'].split(' CL ')[1].split(' AX ')[0].strip()
                ax = [x for x in c['m_x'].split(' AX ')[1].split(' ACCEPT')[0].split(' REJECT')[0].strip().split(',') if x]
                if r['claims'] != [cl]:
                    failures.append((f'claim-not-image:{mode}:{where}', c, f'published claim {r["claims"]} != img(stmt) {cl}'))
                if r['axioms'] != ax:
                    failures.append((f'axioms-not-images:{mode}:{where}', c, f'published axioms {r["axioms"]} != {ax}'))
    # ---- layouts of the same database agree
    groups = {}
    for c in cases:
        if c['kind'] == 'generated':
            groups.setdefault(c['group'], []).append(c)
    for gi, gs in groups.items():
        outs = set()
        for c in gs:
            o = c['impl']
            outs.add((bool(o.get('ok')), tuple(o['plain'][:2]) if o.get('ok') else None,
                      c.get('rust_plain', {}).get('verdict'), c.get('rust_opt', {}).get('verdict')))
        if len(outs) > 1 and all(c['oracle'] for c in gs):
            failures.append(('layout-changes-outcome', gs[0], f'layouts of one database disagree: {sorted(map(str, outs))[:3]}'))
    return mismatches, failures


def replay_dict(c):
    d = dict(name=c['name'], src=c['src'], target=c['target'], oracle_valid=c.get('oracle'), oracle_why=c.get('oracle_why'),
             impl=c.get('impl'), model=c.get('m_x', '')[:2000], model_in_fragment=c.get('m_frag'),
             rust_plain=c.get('rust_plain'), rust_opt=c.get('rust_opt'))
    return d


def run(tier, seed):
    R = C.Report(CID, tier, seed)
    n = 150 if tier == 'quick' else 2500
    n_mut = 60 if tier == 'quick' else 1200

    ok_tr, tr_msg = regen_gen()
    P = R.proof_stage()
    if not ok_tr:
        P['ok'] = False
        P['log'] = 'translator failed closed: ' + tr_msg
        P['discharged'] = 0      # no model could be regenerated from the current source: nothing is proved about it
    proof_broken = not P['ok']

    ok, log, mlref = build_model()
    rsref, real, rerr = C.build_rust()
    if not ok or rsref is None:
        R.violation('build-broken', 'cannot build the extracted model or the Rust harness',
                    {'no_failing_input_found': True, 'theorem_or_correspondence': 'build', 'log': (log or '') + (rerr or '')})
        return R.finish(level='proof', trusted_base=TRUSTED)

    cases = file_cases(tier) + [big_marked_case(seed)] + gen_cases(seed, n, n_mut)
    mismatches, failures = evaluate(R, cases, mlref, rsref, tier)

    broken = proof_broken or bool(mismatches)
    if broken and not failures:
        # larger oracle budget when the proof or the correspondence broke
        more = gen_cases(seed + 7919, 600 if tier == 'quick' else 4000, 0)
        m2, f2 = evaluate(R, more, mlref, rsref, tier)
        mismatches += m2
        failures += f2

    for sig, c, desc in failures:
        R.violation(sig, desc, replay_dict(c))
    for c in cases[:200]:
        if c['kind'] == 'generated' and c['oracle'] and c['impl'].get('ok'):
            R.sample(dict(name=c['name'], target=c['target'], info=c['info'], proof_bytes=len(c['impl']['plain'][2]) // 2,
                          src=c['src'][-400:]))
    if proof_broken and not R.violations:
        R.violation('proof-broken', 'Coq proof stage failed (generated Gen/MMTranslate.v no longer agrees with the model, or the translator '
                    'failed closed)',
                    {'no_failing_input_found': True, 'theorem_or_correspondence': f'Props/{CID}.v / MM16/GenMMTranslateAgree.v',
                     'log': P['log'][-3000:]})
    if mismatches and not R.violations:
        R.violation('correspondence-broken', 'model and implementation disagree',
                    {'no_failing_input_found': True, 'theorem_or_correspondence': 'MM16 model vs metamath.translate / independent verifier / Rust',
                     'first_mismatches': mismatches[:8]})
    elif mismatches:
        R.notes.append({'correspondence_mismatches': mismatches[:8]})

    R.coverage['rule'] = ('case = (database text, target); generated databases: forward-prover derivations over random constants, n-ary '
                          'constructors, declared notations, axioms/rules with $e, prop-1/prop-2/mp, targets with 0-3 metavariables, each in '
                          'three compressed layouts (no Z, Z on every repeated subproof, random Z marks/reuse) plus proof mutants; '
                          'non-trivial = independently verified valid proof that the real translator translated')
    R.coverage['correspondence_mismatches'] = len(mismatches)
    R.coverage['cases_in_fragment'] = sum(1 for c in cases if c.get('m_frag') == '1')
    R.coverage['cases_valid'] = sum(1 for c in cases if c.get('oracle'))
    return R.finish(level='proof', trusted_base=TRUSTED)


TRUSTED = C.TRUSTED_COMMON + [
    'translators/mm_translate.py (Python-ast -> Gallina, statement level, fail closed) and coq/MM16/GenPrims.v (hand-written meaning of the '
    'interpreter / converter / list / dict primitives the translated statements call); ProofExp.execute_full skeleton and symbol numbering are glue',
    'MM16 models abstract Metamath expressions to the parse trees of metamath/parser.py (token-level parsing is C17); '
    '$c/$v/$d are not modelled; compressed-proof letters are decoded by the harness (codec is C15)',
    'StatefulInterpreter bookkeeping is modelled by the checker semantics of the emitted instructions (C04 ties the two)',
    'harness/c16_gen.py (database generator, .mm printer, model encoder), harness/c16_mmverify.py (independent verifier), '
    'harness/impl/mm16_runner.py (intercepts ProofExp.main inside the real translate.main), ocaml/mm16_driver.ml',
]


def replay(path):
    d = json.load(open(path))
    rp = d.get('replay', d)
    src, target = rp['src'], rp['target']
    ok, log, mlref = build_model()
    rsref, real, rerr = C.build_rust()
    c = text_case('replay', src, target, 'replay')
    R = C.Report(CID, 'replay', 0)
    mism, fails = evaluate(R, [c], mlref, rsref, 'quick')
    print(json.dumps(replay_dict(c), indent=1)[:6000])
    print('mismatches:', mism)
    print('property failures:', [(s, desc) for s, _, desc in fails])
    return 1 if fails else 0

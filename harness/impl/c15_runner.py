"""Implementation side of the C15 tie (runs under /venv with the repo on PYTHONPATH).

One JSON request per input line, one JSON answer per output line.  The real functions are reached
only through their public/private entry points (no patched code):
  num : MetamathConverter._import_proof on a statement whose proof is "( ) w1 w2 ..."  (convert_to_number)
  raw : MetamathConverter._import_proof on a hand-built ProvableStatement (arbitrary proof string)
  db  : parse_database + MetamathConverter + lemma.proof  (lexer, parser, converter together)
  isspace : the code points for which str.isspace holds / which the grammar's whitespace matches
"""
import json
import sys

from proof_generation.metamath.ast import (
    Application,
    Database,
    FloatingStatement,
    Metavariable,
    ProvableStatement,
)
from proof_generation.metamath.converter.converter import MetamathConverter
from proof_generation.metamath.parser import parse_database


def Stub(floats):
    """a converter object that has not run its constructor (no database conversion): _import_proof and whatever private methods
    it delegates to only look at self.parsed"""
    obj = object.__new__(MetamathConverter)
    obj.parsed = Database(tuple(FloatingStatement(l, (Application('#Pattern'), Metavariable(v))) for l, v in floats))
    return obj


def term_of(vars_):
    if not vars_:
        return Application('\\bot')
    t = Metavariable(vars_[-1])
    for v in reversed(vars_[:-1]):
        t = Application('\\imp', (Metavariable(v), t))
    return t


def import_raw(floats, vars_, proof):
    st = ProvableStatement('goal', (Application('|-'), term_of(vars_)), proof)
    p = MetamathConverter._import_proof(Stub(floats), st)
    keys = list(p.labels.keys())
    if keys != list(range(1, len(keys) + 1)):
        return {'err': 'keys', 'keys': keys}
    return {'labels': [p.labels[k] for k in keys], 'steps': list(p.applied_lemmas)}


def replay(req):
    """run the REAL translate.exec_proof on a database and record the term on top of the stack after every step of
    applied_lemmas.  No code is patched: the list exec_proof iterates is replaced (in this process) by a list whose
    iterator takes a snapshot between two steps."""
    from proof_generation.claim import Claim
    from proof_generation.interpreter import ExecutionPhase
    from proof_generation.metamath.translate import exec_proof
    from proof_generation.proof import ProofExp
    from proof_generation.stateful_interpreter import StatefulInterpreter

    conv = MetamathConverter(parse_database(req['src']))
    target = req['target']
    lemma = conv.get_lemma_by_name(target)
    proof = lemma.proof
    steps = list(proof.applied_lemmas)
    axioms = [conv.get_axiom_by_name(a).pattern for a in conv.exported_axioms]
    claims = [lemma.pattern]
    terms = []

    def tid(x):
        for i, y in enumerate(terms):
            if type(y) is type(x) and y == x:
                return i
        terms.append(x)
        return len(terms) - 1

    interp = StatefulInterpreter(ExecutionPhase.Gamma, [Claim(c) for c in claims])
    tops = []

    class Rec(list):
        def __iter__(self):
            for i, x in enumerate(list.__iter__(self)):
                if i > 0:
                    tops.append(tid(interp.stack[-1]) if interp.stack else -1)
                yield x
            tops.append(tid(interp.stack[-1]) if interp.stack else -1)

    class Skeleton(ProofExp):
        def __init__(self):
            super().__init__(axioms=axioms, claims=claims)

        def execute_proofs_phase(self, interpreter):
            exec_proof(conv, target, self, interpreter)

    object.__setattr__(proof, 'applied_lemmas', Rec(steps))
    err = None
    try:
        Skeleton().execute_full(interp)
    except Exception as e:  # noqa: BLE001
        err = type(e).__name__ + ': ' + str(e)[:120]
    finally:
        object.__setattr__(proof, 'applied_lemmas', steps)
    keys = list(proof.labels.keys())
    return {'steps': steps, 'labels': [proof.labels[k] for k in keys], 'tops': tops if steps else [], 'err': err,
            'terms': [str(t)[:60] for t in terms[:40]]}


def handle(req):
    k = req['k']
    if k == 'num':
        r = import_raw([], [], '( ) ' + ' '.join(req['words']))
        return r
    if k == 'raw':
        return import_raw(req['floats'], req['vars'], req['proof'])
    if k == 'db':
        db = parse_database(req['src'])
        fields = {}

        def walk(sts):
            for s in sts:
                if isinstance(s, ProvableStatement):
                    fields[s.label] = s.proof
                elif hasattr(s, 'statements'):
                    walk(s.statements)

        walk(db.statements)
        conv = MetamathConverter(db)
        out = {}
        for name in req['lemmas']:
            p = conv.get_lemma_by_name(name).proof
            keys = list(p.labels.keys())
            out[name] = {'labels': [p.labels[k] for k in keys], 'keys_ok': keys == list(range(1, len(keys) + 1)),
                         'steps': list(p.applied_lemmas), 'field': fields.get(name)}
        return {'lemmas': out}
    if k == 'replay':
        return replay(req)
    if k == 'isspace':
        # which characters separate tokens for the REAL lexer: "$c a<ch>b $." has two constants iff <ch> separates
        lex = []
        for c in req['probe']:
            try:
                db = parse_database('$c a' + chr(c) + 'b $.')
                if len(db.statements[0].constants) == 2:
                    lex.append(c)
            except Exception:  # noqa: BLE001
                lex.append(-c)
        return {'isspace': [c for c in range(0x110000) if chr(c).isspace()], 'lex': lex}
    return {'err': 'unknown request'}


def main():
    for line in sys.stdin:
        line = line.strip()
        if not line:
            continue
        try:
            ans = handle(json.loads(line))
        except Exception as e:  # noqa: BLE001  (an exception of the implementation is an outcome)
            ans = {'err': type(e).__name__, 'msg': str(e)[:200]}
        sys.stdout.write(json.dumps(ans) + '\n')
    sys.stdout.flush()


if __name__ == '__main__':
    main()

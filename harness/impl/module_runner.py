"""Implementation side of C19's file correspondence: serialises proof modules with ProofExp.serialize in both
output formats and both optimize settings and prints one JSON object per request line.

request:  SHIPPED <name>          name in propositional small_theory substitution kore definedness
          GEN <json>              {"axioms":[term..], "proofs":[spec..], "notations":[...]}  (terms in pycodec wire form)
  proof spec: ["imp_refl", T] | ["dneg_intro", T] | ["bot_elim", T] | ["prop1_inst", T, T] | ["axiom", i]
              | ["sinst", spec, {id: T}] | ["mp_axioms", i, j] | ["trans", spec, spec] | ["gen", spec, x] | ["top_intro"] | ["imp_provable", T, spec]
"""
import json
import os
import sys
import tempfile
from pathlib import Path

sys.path.insert(0, os.path.dirname(os.path.dirname(os.path.abspath(__file__))))
sys.setrecursionlimit(100000)

import pycodec as PC  # noqa: E402
from frozendict import frozendict  # noqa: E402
from proof_generation import pattern as P  # noqa: E402
from proof_generation.instruction import Instruction  # noqa: E402
from proof_generation.proof import OutputFormat, ProofExp  # noqa: E402
from proof_generation.proofs.propositional import Propositional  # noqa: E402


def build(t):
    k = t[0]
    if k == 'e':
        return P.EVar(t[1])
    if k == 's':
        return P.SVar(t[1])
    if k == 'y':
        return P.Symbol(f's{t[1]}')
    if k == 'i':
        return P.Implies(build(t[1]), build(t[2]))
    if k == 'a':
        return P.App(build(t[1]), build(t[2]))
    if k == 'x':
        return P.Exists(t[1], build(t[2]))
    if k == 'm':
        return P.Mu(t[1], build(t[2]))
    if k == 'v':
        return P.MetaVar(t[1], tuple(P.EVar(x) for x in t[2]), tuple(P.SVar(x) for x in t[3]),
                         tuple(P.SVar(x) for x in t[4]), tuple(P.SVar(x) for x in t[5]),
                         tuple(P.EVar(x) for x in t[6]))
    if k == 'E':
        return P.ESubst(build(t[1]), P.EVar(t[2]), build(t[3]))
    if k == 'S':
        return P.SSubst(build(t[1]), P.SVar(t[2]), build(t[3]))
    if k == 'I':
        return P.Instantiate(build(t[1]), frozendict({key: build(v) for key, v in t[2]}))
    raise ValueError(t)


class GenMod(ProofExp):
    def __init__(self, spec):
        super().__init__()
        self.prop = self.import_module(Propositional())
        self._axioms = [build(PC.parse(a)) for a in spec['axioms']]
        proofs = [self.mk(s) for s in spec['proofs']]
        self._claims = [p.conc for p in proofs]
        self._proof_expressions = proofs

    def mk(self, s):
        k = s[0]
        T = lambda x: build(PC.parse(x))  # noqa: E731
        if k == 'imp_refl':
            return self.prop.imp_refl(T(s[1]))
        if k == 'dneg_intro':
            return self.prop.dneg_intro(T(s[1]))
        if k == 'bot_elim':
            return self.prop.bot_elim(T(s[1]))
        if k == 'prop1_inst':
            return self.prop.prop1_inst(T(s[1]), T(s[2]))
        if k == 'top_intro':
            return self.prop.top_intro()
        if k == 'axiom':
            return self.load_axiom(self._axioms[s[1]])
        if k == 'mp_axioms':
            return self.modus_ponens(self.load_axiom(self._axioms[s[1]]), self.load_axiom(self._axioms[s[2]]))
        if k == 'trans':
            return self.prop.imp_transitivity(self.mk(s[1]), self.mk(s[2]))
        if k == 'gen':
            return self.exists_generalization(self.mk(s[1]), P.EVar(s[2]))
        if k == 'sinst':      # the static ProofExp.instantiate (interpreter.instantiate with the given delta, possibly empty)
            return self.instantiate(self.mk(s[1]), {int(key): T(v) for key, v in s[2].items()})
        if k == 'imp_provable':
            return self.prop.imp_provable(T(s[1]), self.mk(s[2]))
        raise ValueError(s)


def shipped(name):
    if name == 'propositional':
        return Propositional()
    if name == 'small_theory':
        from proof_generation.proofs.small_theory import SmallTheory
        return SmallTheory()
    if name == 'substitution':
        from proof_generation.proofs.substitution import Substitution
        return Substitution()
    if name == 'kore':
        from proof_generation.proofs.kore import KoreLemmas
        return KoreLemmas()
    if name == 'definedness':
        from proof_generation.proofs.definedness import Definedness
        return Definedness()
    raise ValueError(name)


def serialise(make):
    out = {}
    for optimize in (False, True):
        with tempfile.TemporaryDirectory(prefix='pi2mod.') as d:
            base = Path(d) / 'm'
            make().serialize(base, OutputFormat.Binary, optimize)
            make().serialize(base, OutputFormat.Pretty, optimize)
            import gc
            gc.collect()    # the interpreters close their last file in __del__
            res = {}
            for ph in ('gamma', 'claim', 'proof'):
                res[ph] = dict(bin=open(f'{base}.ml-{ph}', 'rb').read().hex(),
                               pretty=open(f'{base}.pretty-{ph}', encoding='utf-8').read())
            out['opt' if optimize else 'plain'] = res
    return out


def main():
    for line in sys.stdin:
        line = line.strip()
        if not line:
            continue
        kind, _, rest = line.partition(' ')
        try:
            if kind == 'OPCODES':
                res = {i.name: int(i) for i in Instruction}
            elif kind == 'SHIPPED':
                res = serialise(lambda: shipped(rest))
            else:
                spec = json.loads(rest)
                res = serialise(lambda: GenMod(spec))
            print(json.dumps(dict(ok=True, res=res)))
        except Exception as e:  # noqa: BLE001
            import traceback
            print(json.dumps(dict(ok=False, err=f'{type(e).__name__}: {e}', tb=traceback.format_exc()[-1500:])))
        sys.stdout.flush()


if __name__ == '__main__':
    main()

"""Implementation side of the C20 tie: the REAL LanguageSemantics / get_proof_hints / ExecutionProofExp
(imported from PI2_REPO or /repo through the pyk shim in harness/shims), driven by the same line
protocol as ocaml/k_driver.ml (grammar documented there).  One JSON object per input line:
  {"res": "<same text the model driver prints>", "exc": "<exception class: message>", "stage": ...,
   "ser": "V <gamma> <claim> <proof>"   (GEN only, when a module was produced)}
Patterns are printed FULLY EXPANDED (Instantiate.simplify until none is left)."""
import io
import json
import sys

import pyk.kore.syntax as kore

from proof_generation.claim import Claim
from proof_generation.interpreter import ExecutionPhase
from proof_generation.k.execution_proof_generation import ExecutionProofExp
from proof_generation.k.kore_convertion.language_semantics import ConvertionScope, LanguageSemantics
from proof_generation.k.kore_convertion.rewrite_steps import get_proof_hints
from proof_generation.llvm_proof_hint import LLVMRewriteTrace, LLVMRuleEvent, LLVMSideCondEvent
from proof_generation import pattern as P
from proof_generation.serializing_interpreter import SerializingInterpreter

sys.setrecursionlimit(100000)


class Bad(Exception):
    pass


class Stream:
    def __init__(self, toks):
        self.t, self.i = toks, 0

    def next(self):
        if self.i >= len(self.t):
            raise Bad()
        x = self.t[self.i]
        self.i += 1
        return x

    def int(self):
        return int(self.next())


def unhex(s):
    return '' if s == '-' else bytes.fromhex(s).decode('utf-8', 'surrogateescape')


def hexs(s):
    b = s.encode('utf-8', 'surrogateescape')
    return b.hex() if b else '-'


def p_sort(st):
    t = st.next()
    if t == 'v':
        return kore.SortVar(unhex(st.next()))
    if t == 'a':
        return kore.SortApp(unhex(st.next()))
    raise Bad()


def p_kore(st):
    t = st.next()
    if t == 'E':
        x = unhex(st.next())
        return kore.EVar(x, p_sort(st))
    if t != 'N':
        raise Bad()
    op = st.next()
    ss = [p_sort(st) for _ in range(st.int())]
    args = [p_kore(st) for _ in range(st.int())]
    return mk_node(op, ss, args)


def mk_node(op, ss, a):
    # the generator only emits well-shaped nodes (right number of sort fields); And/Or carry any
    # number of operands (the code asserts len == 2)
    if op == 'rw':
        return kore.Rewrites(ss[0], a[0], a[1])
    if op == 'and':
        return kore.And(ss[0], tuple(a))
    if op == 'or':
        return kore.Or(ss[0], tuple(a))
    if op == 'in':
        return kore.In(ss[0], ss[1], a[0], a[1])
    if op == 'not':
        return kore.Not(ss[0], a[0])
    if op == 'next':
        return kore.Next(ss[0], a[0])
    if op == 'imp':
        return kore.Implies(ss[0], a[0], a[1])
    if op == 'ceil':
        return kore.Ceil(ss[0], ss[1], a[0])
    if op == 'floor':
        return kore.Floor(ss[0], ss[1], a[0])
    if op == 'iff':
        return kore.Iff(ss[0], a[0], a[1])
    if op == 'eq':
        return kore.Equals(ss[0], ss[1], a[0], a[1])
    if op == 'top':
        return kore.Top(ss[0])
    if op == 'bot':
        return kore.Bottom(ss[0])
    if op == 'ex':
        # sorts [var.sort; sort], args [var; body]
        return kore.Exists(ss[1], a[0], a[1])
    if op.startswith('app:'):
        return kore.App(unhex(op[4:]), tuple(ss), tuple(a))
    if op.startswith('dv:'):
        return kore.DV(ss[0], kore.String(unhex(op[3:])))
    if op.startswith('un'):
        k = int(op[2:] or 0) % 4
        s = ss[0] if ss else kore.SortApp('S')
        v = kore.EVar('U', s)
        body = a[0] if a else kore.Top(s)
        return [kore.SVar('U', s), kore.Forall(s, v, body), kore.Mu(kore.SVar('U', s), body),
                kore.Nu(kore.SVar('U', s), body)][k]
    raise Bad()


def p_sig(st):
    sorts = [unhex(st.next()) for _ in range(st.int())]
    syms = []
    for _ in range(st.int()):
        name = unhex(st.next())
        npar, narg, fn, cell, ctor = st.int(), st.int(), st.int(), st.int(), st.int()
        syms.append((name, npar, narg, fn, cell, ctor))
    return sorts, syms


def p_item(st):
    t = st.next()
    if t == 'R':
        o = st.int()
        n = st.int()
        sub = []
        for _ in range(n):
            x = unhex(st.next())
            sub.append((x, p_kore(st)))
        return LLVMRuleEvent(o, tuple(sub))
    if t == 'C':
        return p_kore(st)
    if t == 'O':
        return LLVMSideCondEvent(0, ())
    raise Bad()


def definition(sig, axioms, two_modules=False):
    sorts, syms = sig
    sents = [kore.SortDecl(s) for s in sorts]
    first = sorts[0] if sorts else 'S'
    symsents = []
    for (name, npar, narg, fn, cell, ctor) in syms:
        params = tuple(kore.SortVar('P%d' % i) for i in range(npar))
        # argument/result sorts are irrelevant to the conversion; use the parameters when there are any
        ins = tuple((params[i % npar] if npar else kore.SortApp(first)) for i in range(narg))
        out = params[-1] if npar else kore.SortApp(first)
        attrs = tuple(kore.App(a) for a, on in (('functional', fn), ('cell', cell), ('constructor', ctor)) if on)
        symsents.append(kore.SymbolDecl(kore.Symbol(name, params), ins, out, attrs))
    axsents = [kore.Axiom((), a) for a in axioms]
    if not two_modules:
        return kore.Definition((kore.Module('M', tuple(sents + symsents + axsents)),))
    # two modules sharing one ordinal counter: BASE declares the signature and holds the first half of the
    # axioms, MAIN (the main module: the last one) imports BASE and holds the rest
    h2 = len(axsents) // 2
    m1 = kore.Module('BASE', tuple(sents + symsents + axsents[:h2]))
    m2 = kore.Module('MAIN', tuple([kore.Import('BASE')] + axsents[h2:]))
    return kore.Definition((m1, m2))


def expand(p, out):
    while isinstance(p, P.Instantiate):
        p = p.simplify()
    if isinstance(p, P.EVar):
        out.append('e%d' % p.name)
    elif isinstance(p, P.SVar):
        out.append('s%d' % p.name)
    elif isinstance(p, P.Symbol):
        out.append('y' + hexs(p.name))
    elif isinstance(p, P.MetaVar):
        cons = p.e_fresh or p.s_fresh or p.positive or p.negative or p.app_ctx_holes
        out.append('m%d%s' % (p.name, '!constrained' if cons else ''))
    elif isinstance(p, P.Implies):
        out.append('I')
        expand(p.left, out)
        expand(p.right, out)
    elif isinstance(p, P.App):
        out.append('A')
        expand(p.left, out)
        expand(p.right, out)
    elif isinstance(p, P.Exists):
        out.append('X%d' % p.var)
        expand(p.subpattern, out)
    elif isinstance(p, P.Mu):
        out.append('U%d' % p.var)
        expand(p.subpattern, out)
    else:
        out.append('?' + type(p).__name__)


def pat_str(p):
    out = []
    expand(p, out)
    return ' '.join(out)


def pats_str(l):
    return '%d [%s]' % (len(l), ' ; '.join(pat_str(p) for p in l))


def parse_tree(st):
    t = st.next()
    if t in ('I', 'A'):
        l = parse_tree(st)
        r = parse_tree(st)
        return (t, l, r)
    if t[0] in 'XU':
        return (t, parse_tree(st))
    return t


def to_real(tree, wrap=True):
    """prefix tree -> real Pattern; shapes of kore-rewrites / not are re-built through the real notations so that
    comparisons mix Instantiate and plain patterns"""
    import proof_generation.proofs.kore as kl
    if isinstance(tree, str):
        c, rest = tree[0], tree[1:]
        if c == 'e':
            return P.EVar(int(rest))
        if c == 's':
            return P.SVar(int(rest))
        if c == 'm':
            return P.MetaVar(int(rest))
        if c == 'y':
            return P.Symbol(unhex(rest))
        raise Bad()
    if wrap:
        sp = split_rewrites(tree)
        if sp is not None:
            return kl.kore_rewrites(to_real(sp[0]), to_real(sp[1]), to_real(sp[2]))
        if tree[0] == 'I' and tree[2] == ('U0', 's0'):
            return P.neg(to_real(tree[1]))
        if tree == ('U0', 's0'):
            return P.bot()
    if tree[0] == 'I':
        return P.Implies(to_real(tree[1]), to_real(tree[2]))
    if tree[0] == 'A':
        return P.App(to_real(tree[1]), to_real(tree[2]))
    if tree[0][0] == 'X':
        return P.Exists(int(tree[0][1:]), to_real(tree[1]))
    if tree[0][0] == 'U':
        return P.Mu(int(tree[0][1:]), to_real(tree[1]))
    raise Bad()


def split_rewrites(tree):
    bot = ('U0', 's0')
    try:
        i0, a, b = tree
        an, nxt, rhs = b
        i1, c, bot1 = a
        i2, d, bot2 = c
        i3, e, f = d
        i4, lhs, bot3 = e
        i5, g, bot4 = f
        a2, inh, srt = g
        if (i0, i1, i2, i3, i4, i5, an, a2) == ('I',) * 6 + ('A', 'A') and bot1 == bot2 == bot3 == bot4 == bot \
                and nxt == 'y' + hexs('kore_next') and inh == 'y' + hexs('inhabitant'):
            return srt, lhs, rhs
    except (ValueError, TypeError):
        pass
    return None


class BIO(io.BytesIO):
    final = None

    def close(self):
        if self.final is None:
            self.final = self.getvalue()
        super().close()


def serialize(pe):
    g, c, p = BIO(), BIO(), BIO()
    claims = [Claim(x) for x in pe._claims]
    ser = SerializingInterpreter(ExecutionPhase.Gamma, g, claims, c, p)
    pe.execute_full(ser)
    for b in (g, c, p):
        b.close()
    return 'V ' + ' '.join((b.final.hex() or '-') for b in (g, c, p))


SEMS = {}      # DEF id -> (LanguageSemantics, number of axioms): several definitions alive in one process


def rules_answer(sem, n_axioms):
    from proof_generation.k.kore_convertion.language_semantics import KRewritingRule
    parts = []
    for o in range(n_axioms):
        try:
            ax = sem.get_axiom(o)
        except ValueError:
            continue
        scope = sem._cached_axiom_scopes[o]
        parts.append('%d %s %s | %s | %s' % (o, 'R' if isinstance(ax, KRewritingRule) else 'Q', pat_str(ax.pattern),
                                             ','.join(hexs(n) for n in scope._metavars),
                                             ','.join(hexs(n) for n in scope._sort_param_metavars)))
    return 'OK %d [%s]' % (len(parts), ' ; '.join(parts))


def run(line):
    st = Stream(line.split())
    cmd = st.next()
    if cmd == 'CONV':
        sig = p_sig(st)
        k = p_kore(st)
        stage = 'load'
        try:
            sem = LanguageSemantics.from_kore_definition(definition(sig, []))
            stage = 'convert'
            scope = ConvertionScope()
            pat = sem._convert_pattern(scope, k)
        except Exception as e:  # noqa: BLE001
            return {'res': 'NONE', 'exc': '%s: %s' % (type(e).__name__, str(e)[:200]), 'stage': stage}
        names = ','.join(hexs(n) for n in scope._metavars)
        snames = ','.join(hexs(n) for n in scope._sort_param_metavars)
        ids_ok = (list(v.name for v in scope._metavars.values()) == list(range(len(scope._metavars)))
                  and list(v.name for v in scope._sort_param_metavars.values())
                  == [100 + i for i in range(len(scope._sort_param_metavars))])
        unused = bool(scope._evars or scope._svars)
        return {'res': 'OK %s | %s | %s' % (pat_str(pat), names, snames) + ('' if ids_ok and not unused else ' !ids')}
    if cmd in ('DEF', 'DEF2'):
        ident = st.next()
        sig = p_sig(st)
        axs = [p_kore(st) for _ in range(st.int())]
        SEMS.pop(ident, None)
        try:
            sem = LanguageSemantics.from_kore_definition(definition(sig, axs, cmd == 'DEF2'))
        except Exception as e:  # noqa: BLE001
            return {'res': 'NONE', 'exc': '%s: %s' % (type(e).__name__, str(e)[:200]), 'stage': 'load'}
        SEMS[ident] = (sem, len(axs))
        return {'res': rules_answer(sem, len(axs))}
    if cmd == 'USE':
        ident = st.next()
        init = p_kore(st)
        items = [p_item(st) for _ in range(st.int())]
        if ident not in SEMS:
            return {'res': 'NONE', 'exc': 'definition failed to load', 'stage': 'load'}
        sem = SEMS[ident][0]
        try:
            hints = get_proof_hints(LLVMRewriteTrace((), init, tuple(items)), sem)
            pe = ExecutionProofExp.from_proof_hints(hints, sem)
        except Exception as e:  # noqa: BLE001
            return {'res': 'NONE', 'exc': '%s: %s' % (type(e).__name__, str(e)[:200]), 'stage': 'run'}
        out = {'res': 'OK A %s C %s P %s' % (pats_str(pe._axioms), pats_str(pe._claims),
                                              pats_str([t.conc for t in pe._proof_expressions]))}
        try:
            out['ser'] = serialize(pe)
        except Exception as e:  # noqa: BLE001
            out['ser_exc'] = '%s: %s' % (type(e).__name__, str(e)[:200])
        return out
    if cmd in ('RULES', 'RULES2'):
        from proof_generation.k.kore_convertion.language_semantics import KRewritingRule
        sig = p_sig(st)
        axs = [p_kore(st) for _ in range(st.int())]
        try:
            sem = LanguageSemantics.from_kore_definition(definition(sig, axs, cmd == 'RULES2'))
        except Exception as e:  # noqa: BLE001
            return {'res': 'NONE', 'exc': '%s: %s' % (type(e).__name__, str(e)[:200]), 'stage': 'load'}
        parts = []
        for o in range(len(axs)):
            try:
                ax = sem.get_axiom(o)
            except ValueError:
                continue
            scope = sem._cached_axiom_scopes[o]
            parts.append('%d %s %s | %s | %s' % (o, 'R' if isinstance(ax, KRewritingRule) else 'Q', pat_str(ax.pattern),
                                                 ','.join(hexs(n) for n in scope._metavars),
                                                 ','.join(hexs(n) for n in scope._sort_param_metavars)))
        return {'res': 'OK %d [%s]' % (len(parts), ' ; '.join(parts))}
    if cmd == 'HINTS':
        from proof_generation.k.kore_convertion.language_semantics import KEquationalRule, KRewritingRule
        from proof_generation.k.kore_convertion.rewrite_steps import RewriteStepExpression
        sig = p_sig(st)
        hints = []
        for _ in range(st.int()):
            before = to_real(parse_tree(st))
            after = to_real(parse_tree(st))
            kind = st.next()
            o = st.int()
            rp = to_real(parse_tree(st))
            d = {}
            for _ in range(st.int()):
                i = st.int()
                d[i] = to_real(parse_tree(st))
            rule = KRewritingRule(o, rp) if kind == 'R' else KEquationalRule(o, rp)
            hints.append(RewriteStepExpression(before, after, rule, d))
        stage = 'load'
        try:
            sem = LanguageSemantics.from_kore_definition(definition(sig, []))
            stage = 'run'
            pe = ExecutionProofExp.from_proof_hints(iter(hints), sem)
        except Exception as e:  # noqa: BLE001
            return {'res': 'NONE', 'exc': '%s: %s' % (type(e).__name__, str(e)[:200]), 'stage': stage}
        res = 'OK A %s C %s P %s' % (pats_str(pe._axioms), pats_str(pe._claims),
                                     pats_str([t.conc for t in pe._proof_expressions]))
        out = {'res': res}
        try:
            out['ser'] = serialize(pe)
        except Exception as e:  # noqa: BLE001
            out['ser_exc'] = '%s: %s' % (type(e).__name__, str(e)[:200])
        return out
    if cmd in ('GEN', 'GEN2'):
        sig = p_sig(st)
        axs = [p_kore(st) for _ in range(st.int())]
        init = p_kore(st)
        items = [p_item(st) for _ in range(st.int())]
        stage = 'load'
        try:
            sem = LanguageSemantics.from_kore_definition(definition(sig, axs, cmd == 'GEN2'))
            stage = 'run'
            hints = get_proof_hints(LLVMRewriteTrace((), init, tuple(items)), sem)
            pe = ExecutionProofExp.from_proof_hints(hints, sem)
        except Exception as e:  # noqa: BLE001
            return {'res': 'NONE', 'exc': '%s: %s' % (type(e).__name__, str(e)[:200]), 'stage': stage}
        res = 'OK A %s C %s P %s' % (pats_str(pe._axioms), pats_str(pe._claims),
                                     pats_str([t.conc for t in pe._proof_expressions]))
        out = {'res': res}
        try:
            out['ser'] = serialize(pe)
        except Exception as e:  # noqa: BLE001
            out['ser_exc'] = '%s: %s' % (type(e).__name__, str(e)[:200])
        return out
    raise Bad()


def main():
    import contextlib
    for line in sys.stdin:
        if not line.strip():
            continue
        try:
            # the code under test prints warnings to stdout
            with contextlib.redirect_stdout(io.StringIO()):
                r = run(line)
        except Bad:
            r = {'res': 'BAD'}
        except Exception as e:  # noqa: BLE001
            r = {'res': 'CRASH', 'exc': '%s: %s' % (type(e).__name__, str(e)[:200])}
        sys.stdout.write(json.dumps(r) + '\n')
    sys.stdout.flush()


if __name__ == '__main__':
    main()

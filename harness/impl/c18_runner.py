"""Implementation side of the C18 tie (runs under /venv, repo first on PYTHONPATH, shims after).

One JSON request on stdin:  {"out": dir, "jobs": [job, ...]}; the jobs are run IN ORDER IN THIS ONE PROCESS
(that is the point: history dependence) and one JSON line is printed per job with the sha256 of every
output file.  Jobs:
  {"t":"shipped","name":"propositional"}          the module's own __main__ (runpy), Makefile arguments:
                                                   binary --optimize, then pretty
  {"t":"gen","seed":n}                             a generated ProofExp module (symbols with random names, proofs
                                                   through Propositional lemmas), same two invocations of main()
  {"t":"mm","path":p,"target":"goal"}              proof_generation.metamath.translate.main() (which itself calls
                                                   ProofExp.main three times on one instance); outputs are
                                                   snapshotted after each of its calls, and a pretty rendering of
                                                   the same instance is produced after each
  {"t":"finalize","seed":n}                        CountingInterpreter over a generated module: dump usage table and
                                                   memory before finalize(), and the suggested set after
The only instrumentation is a wrapper around ProofExp.main installed in THIS process (snapshots); /repo is untouched.
"""
import hashlib
import io
import json
import os
import random
import runpy
import shutil
import sys
from contextlib import redirect_stdout


def sha_dir(d):
    out = {}
    for f in sorted(os.listdir(d)):
        p = os.path.join(d, f)
        if os.path.isfile(p):
            b = open(p, 'rb').read()
            out[f.split('.')[-1]] = hashlib.sha256(b).hexdigest()[:24] + ':' + str(len(b))
    return out


def fresh(d):
    shutil.rmtree(d, ignore_errors=True)
    os.makedirs(d)
    return d


SHIPPED = {'propositional', 'small_theory', 'substitution', 'kore'}


def job_shipped(job, out):
    name = job['name']
    d = fresh(os.path.join(out, 'w'))
    old = sys.argv
    try:
        for args in (['binary', d, name, '--optimize'], ['pretty', d, name]):
            sys.argv = ['x'] + args
            with redirect_stdout(io.StringIO()):
                runpy.run_module('proof_generation.proofs.' + name, run_name='__main__')
    finally:
        sys.argv = old
    return sha_dir(d)


# ---- generated modules -----------------------------------------------------------------------

def build_module(seed):
    from proof_generation.pattern import App, EVar, Exists, Implies, MetaVar, Symbol, bot
    from proof_generation.proof import ProofExp
    from proof_generation.proofs.propositional import Propositional

    rng = random.Random(f'c18gen:{seed}')
    letters = 'abcdefghijklmnopqrstuvwxyzABCDEFGHIJKLMNOPQRSTUVWXYZ0123456789_'
    syms = [Symbol('s' + ''.join(rng.choice(letters) for _ in range(rng.randint(1, 7)))) for _ in range(rng.randint(2, 7))]

    def rpat(depth):
        r = rng.random()
        if depth <= 0 or r < 0.3:
            return rng.choice(syms) if rng.random() < 0.8 else (EVar(rng.randint(0, 2)) if rng.random() < 0.7 else bot())
        if r < 0.65:
            return Implies(rpat(depth - 1), rpat(depth - 1))
        if r < 0.9:
            return App(rpat(depth - 1), rpat(depth - 1))
        return Exists(rng.randint(0, 2), rpat(depth - 1))

    class Gen(ProofExp):
        def __init__(self):
            super().__init__()
            self.prop = self.import_module(Propositional())
            n = rng.randint(1, 5)
            for _ in range(n):
                kind = rng.choice(['mp', 'refl', 'inst', 'trans', 'refl', 'top'])
                if kind == 'mp':
                    a, b = rpat(3), rpat(3)
                    if b in self._claims:
                        continue
                    self.add_axioms([a, Implies(a, b)])
                    self._claims.append(b)
                    self._proof_expressions.append(self.modus_ponens(self.load_axiom(Implies(a, b)), self.load_axiom(a)))
                elif kind == 'refl':
                    p = rpat(4)
                    c = Implies(p, p)
                    if c in self._claims:
                        continue
                    self._claims.append(c)
                    self._proof_expressions.append(self.prop.imp_refl(p))
                elif kind == 'inst':
                    s = rng.choice(syms)
                    ax = Implies(MetaVar(0), Implies(s, MetaVar(0)))
                    p = rpat(3)
                    c = Implies(p, Implies(s, p))
                    if c in self._claims:
                        continue
                    self.add_axiom(ax)
                    self._claims.append(c)
                    self._proof_expressions.append(self.dynamic_inst(self.load_axiom(ax), {0: p}))
                elif kind == 'trans':
                    a, b, c2 = rpat(2), rpat(2), rpat(3)
                    c = Implies(a, c2)
                    if c in self._claims:
                        continue
                    self.add_axioms([Implies(a, b), Implies(b, c2)])
                    self._claims.append(c)
                    self._proof_expressions.append(
                        self.prop.imp_transitivity(self.load_axiom(Implies(a, b)), self.load_axiom(Implies(b, c2))))
                else:
                    p = rpat(3)
                    pf = self.prop.imp_top(p)
                    if pf.conc in self._claims:
                        continue
                    self._claims.append(pf.conc)
                    self._proof_expressions.append(pf)

    return Gen


def build_notation_module(seed, mode):
    """a theory that shares stack terms (bot(), neg(...), implications) with Propositional but has its OWN notation
    table: mode 'none' registers no notation, 'own' registers notations with other names/formats for the same
    definitions, 'partial' registers only neg.  Proof thunks are borrowed from an un-imported Propositional()."""
    from proof_generation.pattern import App, Implies, MetaVar, Mu, Notation, SVar, Symbol, bot, neg, phi0, top
    from proof_generation.proof import ProofExp
    from proof_generation.proofs.propositional import Propositional

    rng = random.Random(f'c18not:{seed}')
    syms = [Symbol('n' + str(rng.randint(0, 99))) for _ in range(3)]
    falsum = Notation('falsum', 0, Mu(0, SVar(0)), 'FALSE')
    nicht = Notation('nicht', 1, Implies(MetaVar(0), bot()), 'NOT({0})')
    verum = Notation('verum', 0, neg(bot()), 'TRUE')
    tables = {'none': [], 'own': [falsum, nicht, verum], 'partial': [neg]}

    def rpat(depth):
        r = rng.random()
        if depth <= 0 or r < 0.35:
            return rng.choice([bot(), phi0, neg(phi0), top(), rng.choice(syms), neg(rng.choice(syms))])
        if r < 0.7:
            return Implies(rpat(depth - 1), rpat(depth - 1))
        if r < 0.85:
            return neg(rpat(depth - 1))
        return App(rng.choice(syms), rpat(depth - 1))

    class NotMod(ProofExp):
        def __init__(self):
            super().__init__(axioms=[bot(), neg(phi0), Implies(bot(), phi0)], notations=list(tables[mode]), claims=[neg(phi0)])
            self.add_proof_expression(self.load_axiom(neg(phi0)))
            prop = Propositional()
            for _ in range(rng.randint(1, 3)):
                k = rng.choice(['mp', 'refl', 'absurd'])
                if k == 'mp':
                    a, b = rpat(2), rpat(2)
                    if b in self._claims:
                        continue
                    self.add_axioms([a, Implies(a, b)])
                    self._claims.append(b)
                    self._proof_expressions.append(self.modus_ponens(self.load_axiom(Implies(a, b)), self.load_axiom(a)))
                elif k == 'refl':
                    p = rpat(2)
                    if Implies(p, p) in self._claims:
                        continue
                    self._claims.append(Implies(p, p))
                    self._proof_expressions.append(prop.imp_refl(p))
                else:
                    pf = prop.bot_elim(rpat(2))
                    if pf.conc in self._claims:
                        continue
                    self._claims.append(pf.conc)
                    self._proof_expressions.append(pf)

    return NotMod


def build_incremental(seed):
    """a module that can be extended after it has been serialised: extend(k) brings it to k claims"""
    from proof_generation.pattern import App, Implies, Symbol
    from proof_generation.proof import ProofExp

    class Inc(ProofExp):
        def __init__(self, n):
            super().__init__(axioms=[Implies(Symbol('a'), Symbol('a'))])
            self.n = 0
            self.rng = random.Random(f'c18inc:{seed}')
            self.f = Symbol('f' + str(seed % 7))
            self.extend(n)

        def extend(self, n):
            for i in range(self.n, n):
                # the random draws depend on i only through the sequence, identical for every way of reaching n
                depth = self.rng.randint(1, 2)
                t = App(self.f, Symbol(f'c{i}'))
                for _ in range(depth):
                    t = App(t, t)
                if i % 3 == 2:
                    ax = Implies(t, Symbol('a'))
                    self.add_axiom(ax)
                    self.add_claim(ax)
                    self.add_proof_expression(self.load_axiom(ax))
                else:
                    self.add_claim(Implies(t, Implies(t, t)))
                    self.add_proof_expression(self.dynamic_inst(self.prop1(), {0: t, 1: t}))
            self.n = n

    return Inc


def job_incr(job, out):
    """serialise -> mutate -> serialise on ONE object ('incremental'), the untouched object twice ('twice'), or a fresh
    object with the final content ('fresh'): the files written last must be the same in all three"""
    from pathlib import Path

    from proof_generation.proof import OutputFormat

    d = fresh(os.path.join(out, 'w'))
    d0 = fresh(os.path.join(out, 'w0'))
    cls = build_incremental(job['seed'])
    n1, n2 = job['n1'], job['n2']
    with redirect_stdout(io.StringIO()):
        if job['mode'] == 'fresh':
            m = cls(n2)
        elif job['mode'] == 'twice':
            m = cls(n2)
            m.serialize(Path(d0) / 'x', OutputFormat.Binary, True)
            m.serialize(Path(d0) / 'x', OutputFormat.Pretty, True)
        else:
            m = cls(n1)
            m.serialize(Path(d0) / 'x', OutputFormat.Binary, True)
            m.serialize(Path(d0) / 'x', OutputFormat.Pretty, True)
            m.extend(n2)
        m.serialize(Path(d) / 'x', OutputFormat.Binary, True)
        m.serialize(Path(d) / 'x', OutputFormat.Pretty, True)
    return sha_dir(d)


def job_gen(job, out):
    d = fresh(os.path.join(out, 'w'))
    if job.get('notations'):
        cls = build_notation_module(job['seed'], job['notations'])
        name = 'not%d' % job['seed']
        with redirect_stdout(io.StringIO()):
            cls().main(['', 'binary', d, name, '--optimize'])
            cls().main(['', 'pretty', d, name])
        return sha_dir(d)
    cls = build_module(job['seed'])
    name = 'gen%d' % job['seed']
    with redirect_stdout(io.StringIO()):
        cls().main(['', 'binary', d, name, '--optimize'])
        cls().main(['', 'pretty', d, name])
    return sha_dir(d)


# ---- Metamath translation ----------------------------------------------------------------------

def job_mm(job, out):
    from proof_generation.metamath import translate
    from proof_generation.proof import ProofExp

    d = os.path.join(out, 'w')
    shutil.rmtree(d, ignore_errors=True)
    snaps = []
    orig = ProofExp.main

    def wrapped(self, argv):
        orig(self, argv)
        # the same instance rendered pretty, and a snapshot of all six files, after each call
        pargv = [a for a in argv if a != '--optimize']
        pargv[pargv.index('binary')] = 'pretty'
        orig(self, pargv)
        snaps.append(sha_dir(d))

    ProofExp.main = wrapped
    old = sys.argv
    try:
        sys.argv = ['translate', job['path'], d, job.get('target', 'goal')]
        with redirect_stdout(io.StringIO()):
            translate.main()
    finally:
        sys.argv = old
        ProofExp.main = orig
    res = dict(snaps[-1]) if snaps else {}
    res['calls'] = len(snaps)
    res['all_calls_equal'] = all(s == snaps[0] for s in snaps)
    if snaps and not res['all_calls_equal']:
        res['snaps'] = snaps
    return res


def job_mm_same_path(job, out):
    """two translations in THIS process from ONE path string whose content differs: either the file is overwritten in between
    (absolute path), or the same relative path is used from two working directories.  Each must give the files of the
    database that is at that path at the time of the call."""
    base = os.path.join(out, 'samepath')
    shutil.rmtree(base, ignore_errors=True)
    d1, d2 = os.path.join(base, 'one'), os.path.join(base, 'two')
    os.makedirs(d1)
    os.makedirs(d2)
    cwd = os.getcwd()
    res = {}
    try:
        if job.get('relative'):
            open(os.path.join(d1, 'db.mm'), 'w').write(job['a'])
            open(os.path.join(d2, 'db.mm'), 'w').write(job['b'])
            os.chdir(d1)
            res['first'] = job_mm({'path': 'db.mm', 'target': job['target']}, out)
            os.chdir(d2)
            res['second'] = job_mm({'path': 'db.mm', 'target': job['target']}, out)
        else:
            path = os.path.join(d1, 'db.mm')
            open(path, 'w').write(job['a'])
            res['first'] = job_mm({'path': path, 'target': job['target']}, out)
            open(path, 'w').write(job['b'])
            res['second'] = job_mm({'path': path, 'target': job['target']}, out)
    finally:
        os.chdir(cwd)
    return res


# ---- finalize dump -----------------------------------------------------------------------------

def job_finalize(job, out):
    from proof_generation.claim import Claim
    from proof_generation.counting_interpreter import CountingInterpreter
    from proof_generation.interpreter import ExecutionPhase
    from proof_generation.proved import Proved

    if 'module' in job:
        import importlib
        m = importlib.import_module('proof_generation.proofs.' + job['module'])
        mod = getattr(m, job['cls'])()
    else:
        mod = build_module(job['seed'])()
    claims = [Claim(c) for c in mod._claims]
    an = CountingInterpreter(ExecutionPhase.Gamma, claims)
    if 'slots' in job:
        an._max_allowed_slots = job['slots']
    with redirect_stdout(io.StringIO()):
        mod.execute_full(an)
    keys = list(an._pattern_usage.keys())
    idx = {p: i for i, p in enumerate(keys)}
    usage = []
    for p in keys:
        st = an._pattern_usage[p]
        usage.append([st.uses, st.complexity_score, st.complexity, [[idx[q], n] for q, n in st.used_patterns.items()]])
    memory = []
    for t in an.memory:
        q = t.conclusion if isinstance(t, Proved) else t
        memory.append(idx.get(q, -1))
    slots = an._max_allowed_slots
    try:
        sug = an.finalize()
        res = sorted(idx[p] for p in sug)
    except Exception as e:  # noqa: BLE001
        res = 'ERR:' + type(e).__name__
    final = [[an._pattern_usage[p].uses, an._pattern_usage[p].complexity_score, an._pattern_usage[p].complexity]
             for p in keys]
    return {'usage': usage, 'memory': memory, 'slots': slots, 'suggested': res, 'final': final}


def job_metavars(job, out):
    """the set-ordered Axiom.metavars tuples of a real database and what their consumers compute from them"""
    from proof_generation.metamath.converter.converter import MetamathConverter
    from proof_generation.metamath.parser import load_database

    c = MetamathConverter(load_database(job['path'], include_proof=True))
    res = {}
    for table in (c._axioms, c._lemmas):
        for name, objs in table.items():
            res[name] = {'metavars': list(objs[0].metavars), 'in_order': list(c.get_metavars_in_order(name)),
                         'as_set': sorted(c.get_metavars(name)), 'len': len(objs[0].metavars)}
    return {'floating': list(c._floating_patterns), 'names': res}


def job_unamb(job, out):
    """GlobalScope.unambiguize: the numbers the selected ambiguous variables get in the all-element and all-set scopes"""
    from proof_generation.metamath.ast import Metavariable
    from proof_generation.metamath.converter.scope import GlobalScope

    res = []
    for case in job['cases']:
        g = GlobalScope()
        for v in case['base_e']:
            g.add_element_var(Metavariable(v))
        for v in case['base_s']:
            g.add_set_var(Metavariable(v))
        for v in case['amb']:
            g.add_variable(Metavariable(v))
        scopes = g.unambiguize(tuple(case['selected']))
        res.append({'n': len(scopes),
                    'first': {v: scopes[0]._element_vars[v].name for v in case['selected']},
                    'last': {v: scopes[-1]._set_vars[v].name for v in case['selected']}})
    return {'cases': res}


def job_sorted(job, out):
    return {'sorted': [sorted(set(l)) for l in job['lists']]}


def main():
    req = json.loads(sys.stdin.read())
    out = req['out']
    os.makedirs(out, exist_ok=True)
    for job in req['jobs']:
        try:
            t = job['t']
            if t == 'shipped':
                assert job['name'] in SHIPPED
                r = job_shipped(job, out)
            elif t == 'gen':
                r = job_gen(job, out)
            elif t == 'incr':
                r = job_incr(job, out)
            elif t == 'mm':
                r = job_mm(job, out)
            elif t == 'mm_same_path':
                r = job_mm_same_path(job, out)
            elif t == 'finalize':
                r = job_finalize(job, out)
            elif t == 'metavars':
                r = job_metavars(job, out)
            elif t == 'unamb':
                r = job_unamb(job, out)
            elif t == 'sorted':
                r = job_sorted(job, out)
            else:
                r = {'err': 'unknown job'}
        except BaseException as e:  # noqa: BLE001   (SystemExit from argparse included)
            r = {'err': type(e).__name__, 'msg': str(e)[:300]}
        sys.stdout.write(json.dumps(r) + '\n')
        sys.stdout.flush()


if __name__ == '__main__':
    main()

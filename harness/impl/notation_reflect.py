"""Runtime reflection over the shipped notation libraries (pattern.py, proofs/{propositional,definedness,kore,
substitution}.py): prints one JSON document with every module-level Notation and samples of the parametric
families, located by a Python expression so that the runner can fetch the very same object."""
import json
import os
import sys

sys.path.insert(0, os.path.dirname(os.path.dirname(os.path.abspath(__file__))))

import pycodec as PC  # noqa: E402
from proof_generation import pattern as P  # noqa: E402
import proof_generation.proofs.definedness as definedness  # noqa: E402
import proof_generation.proofs.kore as kore  # noqa: E402
import proof_generation.proofs.propositional as propositional  # noqa: E402
import proof_generation.proofs.substitution as substitution  # noqa: E402

MODS = {'pattern': P, 'propositional': propositional, 'definedness': definedness, 'kore': kore,
        'substitution': substitution}

names = set()


def collect_syms(p):
    if isinstance(p, P.Symbol):
        names.add(p.name)
    elif isinstance(p, (P.Implies, P.App)):
        collect_syms(p.left)
        collect_syms(p.right)
    elif isinstance(p, (P.Exists, P.Mu)):
        collect_syms(p.subpattern)
    elif isinstance(p, (P.ESubst, P.SSubst)):
        collect_syms(p.pattern)
        collect_syms(p.plug)
    elif isinstance(p, P.Instantiate):
        collect_syms(p.pattern)
        for v in p.inst.values():
            collect_syms(v)


entries = []   # (expr, family, params, Notation)
seen_ids = {}
for mname, mod in MODS.items():
    for attr in sorted(vars(mod)):
        obj = getattr(mod, attr)
        if isinstance(obj, P.Notation) and id(obj) not in seen_ids:
            seen_ids[id(obj)] = True
            entries.append((f'{mname}.{attr}', None, [], obj))

PARAMS = [0, 1, 2, 3, 7, 11, 200]
for v in PARAMS:
    entries.append((f'kore.sorted_exists({v})', 'sorted_exists', [v], kore.sorted_exists(v)))
    entries.append((f'kore.kore_exists({v})', 'kore_exists', [v], kore.kore_exists(v)))
    entries.append((f'substitution.forall({v})', 'forall', [v], substitution.forall(v)))
for n in range(0, 6):
    for cell in (False, True):
        entries.append((f"kore.nary_app(Symbol('f'), {n}, {cell})", 'nary_app', [n, int(cell)],
                        kore.nary_app(P.Symbol('f'), n, cell)))

for _, _, _, nt in entries:
    collect_syms(nt.definition)
symtab = {name: 100 + i for i, name in enumerate(sorted(names))}


def unbuild(p):
    if isinstance(p, P.EVar):
        return ('e', p.name)
    if isinstance(p, P.SVar):
        return ('s', p.name)
    if isinstance(p, P.Symbol):
        return ('y', symtab[p.name])
    if isinstance(p, P.Implies):
        return ('i', unbuild(p.left), unbuild(p.right))
    if isinstance(p, P.App):
        return ('a', unbuild(p.left), unbuild(p.right))
    if isinstance(p, P.Exists):
        return ('x', p.var, unbuild(p.subpattern))
    if isinstance(p, P.Mu):
        return ('m', p.var, unbuild(p.subpattern))
    if isinstance(p, P.MetaVar):
        return ('v', p.name, tuple(x.name for x in p.e_fresh), tuple(x.name for x in p.s_fresh),
                tuple(x.name for x in p.positive), tuple(x.name for x in p.negative),
                tuple(x.name for x in p.app_ctx_holes))
    if isinstance(p, P.ESubst):
        return ('E', unbuild(p.pattern), p.var.name, unbuild(p.plug))
    if isinstance(p, P.SSubst):
        return ('S', unbuild(p.pattern), p.var.name, unbuild(p.plug))
    if isinstance(p, P.Instantiate):
        return ('I', unbuild(p.pattern), tuple((k, unbuild(v)) for k, v in p.inst.items()))
    raise ValueError(repr(p))


out = []
for expr, family, params, nt in entries:
    out.append(dict(expr=expr, family=family, params=params, label=nt.label, arity=nt.arity,
                    cls=type(nt).__module__ + '.' + type(nt).__qualname__, plain=(type(nt) is P.Notation),
                    definition=PC.show(unbuild(nt.definition)), format_str=nt.format_str))
json.dump(dict(symtab=symtab, notations=out), sys.stdout)

"""Implementation side of the C10 correspondence check.  Run under /venv with the repo on PYTHONPATH.

stdin : one JSON case per line   {"m": method, "args": [ARG...]}
        ARG  := {"p": SURF} | {"call": method, "args": [ARG...]} | {"ax": SURF} | {"d": [[id, SURF], ...]} | {"v": n} | {"i": int} | {"l": [SURF...]}
        argv[1] (optional): Gen/PropLib.index.json (owner class of every method, symbol ids)
        SURF := ["ev",n] ["sv",n] ["sym",n] ["imp",a,b] ["app",a,b] ["ex",x,a] ["mu",x,a]
                ["mv",id,ef,sf,pos,neg,holes] ["esub",p,x,q] ["ssub",p,x,q]
                ["neg",a] ["and",a,b] ["or",a,b] ["equiv",a,b] ["bot"] ["top"]      (notation nodes)
stdout: a header line `INIT OK` | `INIT RAISE <exc>` (Tautology() raised; a bare instance is used) |
        `INIT FATAL <exc>`, then one line per case
        OK <conc hex> <md5 of rule trace> <n rules> <stateful Proved hex> <basic Proved hex> <stack ok 0/1>
        RAISE <exception class>            building the thunk raised
        RUNFAIL <which> <exception class>  the thunk was built but running it raised
Patterns are printed fully expanded (every Instantiate simplified) in the byte codec of ocaml/ml_driver.ml.
"""
import hashlib
import json
import sys

from proof_generation.interpreter import ExecutionPhase
from proof_generation.basic_interpreter import BasicInterpreter
from proof_generation.stateful_interpreter import StatefulInterpreter
from proof_generation.pattern import (App, ESubst, EVar, Exists, Implies, Instantiate, MetaVar, Mu, SSubst, SVar,
                                      Symbol, _and, _or, bot, equiv, neg, top)
from proof_generation.proved import Proved
from proof_generation.tautology import Tautology

sys.setrecursionlimit(200000)
SYMS = {}        # Symbol name -> id (Gen/PropLib.index.json `symbols`); default s<k> -> k


def build(s):
    k = s[0]
    if k == 'ev':
        return EVar(s[1])
    if k == 'sv':
        return SVar(s[1])
    if k == 'sym':
        inv = {v_: n_ for n_, v_ in SYMS.items()}
        return Symbol(inv.get(s[1], f's{s[1]}'))
    if k == 'imp':
        return Implies(build(s[1]), build(s[2]))
    if k == 'app':
        return App(build(s[1]), build(s[2]))
    if k == 'ex':
        return Exists(s[1], build(s[2]))
    if k == 'mu':
        return Mu(s[1], build(s[2]))
    if k == 'mv':
        return MetaVar(s[1], tuple(EVar(x) for x in s[2]), tuple(SVar(x) for x in s[3]),
                       tuple(SVar(x) for x in s[4]), tuple(SVar(x) for x in s[5]), tuple(EVar(x) for x in s[6]))
    if k == 'esub':
        return ESubst(build(s[1]), EVar(s[2]), build(s[3]))
    if k == 'ssub':
        return SSubst(build(s[1]), SVar(s[2]), build(s[3]))
    if k == 'neg':
        return neg(build(s[1]))
    if k == 'and':
        return _and(build(s[1]), build(s[2]))
    if k == 'or':
        return _or(build(s[1]), build(s[2]))
    if k == 'equiv':
        return equiv(build(s[1]), build(s[2]))
    if k == 'bot':
        return bot()
    if k == 'top':
        return top()
    raise ValueError(k)


def enc(p, out):
    while isinstance(p, Instantiate):
        p = p.simplify()
    if isinstance(p, EVar):
        out += [0, p.name]
    elif isinstance(p, SVar):
        out += [1, p.name]
    elif isinstance(p, Symbol):
        out += [2, SYMS[p.name] if p.name in SYMS else int(p.name[1:])]
    elif isinstance(p, Implies):
        out.append(3)
        enc(p.left, out)
        enc(p.right, out)
    elif isinstance(p, App):
        out.append(4)
        enc(p.left, out)
        enc(p.right, out)
    elif isinstance(p, Exists):
        out += [5, p.var]
        enc(p.subpattern, out)
    elif isinstance(p, Mu):
        out += [6, p.var]
        enc(p.subpattern, out)
    elif isinstance(p, MetaVar):
        out += [7, p.name]
        for lst in (p.e_fresh, p.s_fresh, p.positive, p.negative, p.app_ctx_holes):
            out.append(len(lst))
            out += [x.name for x in lst]
    elif isinstance(p, ESubst):
        out.append(8)
        enc(p.pattern, out)
        out.append(p.var.name)
        enc(p.plug, out)
    elif isinstance(p, SSubst):
        out.append(9)
        enc(p.pattern, out)
        out.append(p.var.name)
        enc(p.plug, out)
    else:
        raise TypeError(type(p))
    return out


def hexp(p):
    return bytes(enc(p, [])).hex()


class Recording(StatefulInterpreter):
    """StatefulInterpreter that also records the rule instructions it is asked to perform"""

    def __init__(self, phase):
        super().__init__(phase)
        self.trace = []

    def prop1(self):
        self.trace.append('1')
        return super().prop1()

    def prop2(self):
        self.trace.append('2')
        return super().prop2()

    def prop3(self):
        self.trace.append('3')
        return super().prop3()

    def modus_ponens(self, left, right):
        r = super().modus_ponens(left, right)
        self.trace.append('M')
        return r

    def instantiate(self, proved, delta):
        r = super().instantiate(proved, delta)
        self.trace.append('I:' + ','.join(f'{k}={hexp(v)}' for k, v in delta.items()))
        return r

    def load(self, id, term):
        super().load(id, term)
        self.trace.append('L:' + hexp(term.conclusion))

    def exists_quantifier(self):
        self.trace.append('Q')
        return super().exists_quantifier()

    def exists_generalization(self, proved, var):
        r = super().exists_generalization(proved, var)
        self.trace.append(f'G:{var.name}')
        return r


def make_instance():
    """Tautology(); when the constructor itself raises (it builds the eight shipped proofs), fall back
    to an instance whose Propositional.__init__ declares no proof expressions, so that the individual
    rules can still be examined"""
    try:
        return Tautology(), 'INIT OK'
    except Exception as e:  # noqa: BLE001
        first = 'INIT RAISE ' + type(e).__name__
    from proof_generation.proof import ProofExp
    from proof_generation.proofs import propositional as P

    def bare_init(self):
        ProofExp.__init__(self, axioms=[], notations=list(P.PROPOSITIONAL_NOTATIONS))
    P.Propositional.__init__ = bare_init
    return Tautology(), first


def main():
    try:
        T, header = make_instance()
    except Exception as e:  # noqa: BLE001
        print('INIT FATAL', type(e).__name__)
        return
    print(header)
    base = list(T._axioms)
    # the other rule libraries (index: method name -> class); their declared axioms join the replay memory
    owner = {}
    others = {}
    if len(sys.argv) > 1:
        idx = json.load(open(sys.argv[1]))
        SYMS.update(idx.get('symbols', {}))
        for m in idx['methods']:
            owner[m['name']] = m['cls']
        try:
            from proof_generation.proofs.substitution import Substitution
            others['Substitution'] = Substitution()
        except Exception as e:  # noqa: BLE001
            others['Substitution'] = e
        try:
            from proof_generation.proofs.small_theory import SmallTheory
            others['SmallTheory'] = SmallTheory()
        except Exception as e:  # noqa: BLE001
            others['SmallTheory'] = e

    def method(name):
        inst = others.get(owner.get(name))
        if inst is None:
            return getattr(T, name)
        if isinstance(inst, Exception):
            raise inst
        return getattr(inst, name)
    extra_axioms = [a for o in others.values() if not isinstance(o, Exception) for a in o._axioms]
    for line in sys.stdin:
        line = line.strip()
        if not line:
            continue
        case = json.loads(line)
        T._axioms = list(base)

        def arg(a):
            if 'p' in a:
                return build(a['p'])
            if 'd' in a:
                return {int(k): build(x) for k, x in a['d']}
            if 'v' in a:
                return EVar(int(a['v']))
            if 'i' in a:
                return int(a['i'])
            if 'l' in a:
                return [build(x) for x in a['l']]
            if 'ax' in a:
                p = build(a['ax'])
                T.add_axiom(p)
                return T.load_axiom(p)
            return method(a['call'])(*[arg(x) for x in a['args']])

        try:
            th = method(case['m'])(*[arg(x) for x in case['args']])
        except Exception as e:  # noqa: BLE001
            print('RAISE', type(e).__name__)
            continue
        try:
            conc = hexp(th.conc)
        except Exception as e:  # noqa: BLE001
            print('RUNFAIL conc', type(e).__name__)
            continue
        try:
            it = Recording(ExecutionPhase.Proof)
            it.memory = [Proved(a) for a in list(T._axioms) + extra_axioms]
            pr = th(it)
            st_ok = int(len(it.stack) == 1 and it.stack[0] == pr)
            tr = ''.join(t + ' ' for t in it.trace)
            st = hexp(pr.conclusion)
        except Exception as e:  # noqa: BLE001
            print('RUNFAIL stateful', type(e).__name__)
            continue
        try:
            bs = hexp(th(BasicInterpreter(ExecutionPhase.Proof)).conclusion)
        except Exception as e:  # noqa: BLE001
            print('RUNFAIL basic', type(e).__name__)
            continue
        print('OK', conc, hashlib.md5(tr.encode()).hexdigest(), len(it.trace), st, bs, st_ok)
    sys.stdout.flush()


main()

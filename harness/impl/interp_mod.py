"""Module-level requests of interp_runner.py (C03): build ProofExp modules dynamically, serialise them
with optimize off/on through the REAL ProofExp.serialize, report files, symbol table, the memoiser's
selection and the effective declarations.

request:  MOD <module>...      module = CTOR|ADDED|CLAIMS|SUBS|PROOFS[|LATE|LATESUBS]     (root = last)
  LATE / LATESUBS  axioms added / modules imported after ALL modules were built and imported by the others
  CTOR    axioms passed to the constructor (';'-joined patterns with notation, '-' = none)
  ADDED   axioms added afterwards through add_axioms() (which drops duplicates modulo notation)
  CLAIMS  claims (constructor)
  SUBS    indices of earlier modules, ','-joined: import_module in that order
  PROOFS  one item per claim, ';'-joined:  p1 | p2 | p3 | qu | m/<axiom index>/<pattern q>  (claim = q -> axiom)
answer:   RES E[<effective modules: AX|CL|SUBS>] O0[..] O1[..] SEL[<patterns>]
"""
from __future__ import annotations

import shutil
import tempfile
from pathlib import Path

from proof_generation.claim import Claim
from proof_generation.counting_interpreter import CountingInterpreter
from proof_generation.interpreter import ExecutionPhase
from proof_generation.pattern import (App, ESubst, EVar, Exists, Implies, Instantiate, MetaVar, Mu, SSubst, SVar, Symbol)
from proof_generation.proof import OutputFormat, ProofExp

import interp_runner as RU


def enc_n(p):
    """encode a pattern KEEPING its notation (tag 10)"""
    if isinstance(p, Instantiate):
        out = [10] + enc_n(p.pattern) + [len(p.inst)]
        for k, v in p.inst.items():
            out += [k] + enc_n(v)
        return out
    if isinstance(p, EVar):
        return [0, p.name]
    if isinstance(p, SVar):
        return [1, p.name]
    if isinstance(p, Symbol):
        return [2, int(p.name)]
    if isinstance(p, Implies):
        return [3] + enc_n(p.left) + enc_n(p.right)
    if isinstance(p, App):
        return [4] + enc_n(p.left) + enc_n(p.right)
    if isinstance(p, Exists):
        return [5, p.var] + enc_n(p.subpattern)
    if isinstance(p, Mu):
        return [6, p.var] + enc_n(p.subpattern)
    if isinstance(p, MetaVar):
        out = [7, p.name]
        for tup in (p.e_fresh, p.s_fresh, p.positive, p.negative, p.app_ctx_holes):
            out.append(len(tup))
            out += [v.name for v in tup]
        return out
    if isinstance(p, ESubst):
        return [8] + enc_n(p.pattern) + [p.var.name] + enc_n(p.plug)
    if isinstance(p, SSubst):
        return [9] + enc_n(p.pattern) + [p.var.name] + enc_n(p.plug)
    raise RU.IllTyped('enc_n ' + type(p).__name__)


def show_n(p):
    return '.'.join(str(x) for x in enc_n(p))


def pats(s):
    return [] if s in ('-', '') else [RU.pat_of(x) for x in s.split(';')]


class _Tee:
    def __init__(self, f, log):
        self._f, self._log = f, log

    def write(self, b):
        self._log.append(bytes(b))
        return self._f.write(b)

    def close(self):
        return self._f.close()

    def __getattr__(self, n):
        return getattr(self._f, n)


class RecExp(ProofExp):
    """ProofExp that remembers the serialiser `serialize` created (to read its symbol table)"""

    def get_serializing_interpreter(self, *a, **k):
        s = super().get_serializing_interpreter(*a, **k)
        self._last_serializer = s
        # the symbol table is OBSERVED: the id byte each symbol() call writes (no private attribute is read)
        log = self._symbol_log = {}
        orig = s.symbol

        def symbol(name):
            r = orig(name)
            if s.out.tell() >= 2:
                pass
            return r
        # files are real file objects here: remember what was written through a tee on write()
        sink_writes = self._writes = []
        for attr in ('out', 'claim_out', 'proof_out'):
            f = getattr(s, attr)
            if f is None:
                continue
            w = f.write

            def tee(b, w=w):
                sink_writes.append(bytes(b))
                return w(b)
            try:
                f.write = tee
            except AttributeError:
                # BufferedWriter.write is read-only: wrap the object instead
                setattr(s, attr, _Tee(f, sink_writes))

        def symbol_logged(name):
            n0 = len(sink_writes)
            r = orig(name)
            for b in sink_writes[n0:]:
                if len(b) == 2 and b[0] == 4:
                    log.setdefault(name, []).append(b[1])
            return r
        s.symbol = symbol_logged
        return s


def build(specs):
    mods = []
    late = []
    for spec in specs:
        fields = spec.split('|')
        ctor, added, claims, subs, proofs = fields[:5]
        # optional: axioms added and modules imported AFTER every module has been built and imported by the others
        late.append((fields[5] if len(fields) > 5 else '-', fields[6] if len(fields) > 6 else '-'))
        m = RecExp(axioms=pats(ctor), claims=pats(claims))
        for i in ([] if subs in ('-', '') else [int(x) for x in subs.split(',')]):
            m.import_module(mods[i])
        m.add_axioms(pats(added))
        thunks = []
        if proofs not in ('-', ''):
            for item in proofs.split(';'):
                if item in ('p1', 'p2', 'p3'):
                    thunks.append(getattr(m, 'prop' + item[1])())
                elif item == 'qu':
                    thunks.append(m.exists_quantifier())
                else:
                    _, k, q = item.split('/')
                    A = m._axioms[int(k)]
                    thunks.append(m.modus_ponens(m.dynamic_inst(m.prop1(), {0: A, 1: RU.pat_of(q)}), m.load_axiom(A)))
        m._proof_expressions = thunks
        mods.append(m)
    for i, (late_ax, late_subs) in enumerate(late):
        for j in ([] if late_subs in ('-', '') else [int(x) for x in late_subs.split(',')]):
            if j >= i:
                raise RU.Bad('late import of a later module')
            mods[i].import_module(mods[j])
        mods[i].add_axioms(pats(late_ax))
    return mods


def effective(mods):
    out = []
    for m in mods:
        ax = ';'.join(show_n(a) for a in m.get_axioms()) or '-'
        cl = ';'.join(show_n(c) for c in m.get_claims()) or '-'
        subs = ','.join(str(mods.index(s)) for s in m._submodules) or '-'
        out.append(f'{ax}|{cl}|{subs}')
    return ' '.join(out)


def run_serialize(specs, optimize):
    mods = build(specs)            # fresh objects for every run (dynamic_inst mutates its delta)
    root = mods[-1]
    d = tempfile.mkdtemp(prefix='pi2mod.')
    try:
        try:
            root.serialize(Path(d) / 'x', OutputFormat.Binary, optimize)
        except Exception as e:  # noqa: BLE001
            try:
                root._last_serializer.out.close()
            except Exception:  # noqa: BLE001
                pass
            return f'REFUSED {type(e).__name__}'
        ser = root._last_serializer
        ser.out.close()
        files = [(Path(d) / ('x.ml-' + s)).read_bytes() for s in ('gamma', 'claim', 'proof')]
        log = root._symbol_log
        for name, ids in log.items():
            if len(set(ids)) != 1:
                return f'BROKEN-TABLE symbol {name} was written as {sorted(set(ids))}'
        tbl = sorted(((n, ids[0]) for n, ids in log.items()), key=lambda kv: kv[1])
        if [v for _, v in tbl] != list(range(len(tbl))):
            return 'BROKEN-TABLE ' + repr(tbl)[:200].replace('[', '(').replace(']', ')')
        t = ','.join(n for n, _ in tbl) or '-'
        return f'OK tbl[{t}] G[{RU.hexs(files[0])}] C[{RU.hexs(files[1])}] P[{RU.hexs(files[2])}]'
    finally:
        shutil.rmtree(d, ignore_errors=True)


def selection(specs):
    """what CountingInterpreter.finalize suggests for memoisation (the same computation serialize makes)"""
    mods = build(specs)
    root = mods[-1]
    claims = [Claim(c) for c in root._claims]
    analyzer = CountingInterpreter(ExecutionPhase.Gamma, claims)
    try:
        root.execute_full(analyzer)
        sel = analyzer.finalize()
    except Exception as e:  # noqa: BLE001
        return 'ERR ' + type(e).__name__
    return ';'.join(sorted(show_n(p) for p in sel)) or '-'


def mod_request(specs):
    mods = build(specs)
    eff = effective(mods)
    o0 = run_serialize(specs, False)
    o1 = run_serialize(specs, True)
    sel = selection(specs)
    return f'RES E[{eff}] O0[{o0}] O1[{o1}] SEL[{sel}]'

"""Implementation side of C16: run the real `metamath.translate.main` in-process on a database text.

stdin: one JSON object per line {"src": <.mm text>, "target": <label>}
stdout: one JSON object per line
   {"ok": true, "plain": [g,c,p hex], "opt": [g,c,p hex]}           translation succeeded
   {"ok": false, "exc": "<Type> @file:line", "msg": "..."}          a Python exception escaped

`translate.main` itself assembles the module (axioms, claims, proof skeleton) and then calls
`ProofExp.main([... '--optimize', 'binary', dir, name])` three times.  We intercept `ProofExp.main`
so that the module object built by the real `main` is serialised twice into scratch directories:
unoptimised (what the Coq model predicts byte for byte) and optimised (what `main` writes; checked end
to end through the Rust checker).  Nothing in /repo is modified.
"""
import contextlib
import io
import json
import os
import shutil
import sys
import tempfile
import traceback
from pathlib import Path

from proof_generation.metamath import translate as T
from proof_generation.proof import OutputFormat, ProofExp


def hx(b):
    return b.hex() if b else '-'


def read3(d, name):
    out = []
    for suf in ('.ml-gamma', '.ml-claim', '.ml-proof'):
        with open(os.path.join(d, name + suf), 'rb') as f:
            out.append(hx(f.read()))
    return out


def run_case(src, target, tmp):
    mm = os.path.join(tmp, 'case.mm')
    with open(mm, 'w') as f:
        f.write(src)
    d_plain = os.path.join(tmp, 'plain')
    d_opt = os.path.join(tmp, 'opt')
    d_out = os.path.join(tmp, 'out')
    for d in (d_plain, d_opt, d_out):
        shutil.rmtree(d, ignore_errors=True)
        os.mkdir(d)
    calls = []
    orig_main = ProofExp.main

    def fake_main(self, argv):
        calls.append(argv)
        if len(calls) == 1:
            self.serialize(Path(d_plain) / 'case', OutputFormat.Binary, False)
            self.serialize(Path(d_opt) / 'case', OutputFormat.Binary, True)

    ProofExp.main = fake_main
    old_argv = sys.argv
    sys.argv = ['translate', mm, d_out, target]
    try:
        with contextlib.redirect_stdout(io.StringIO()):
            T.main()
    finally:
        sys.argv = old_argv
        ProofExp.main = orig_main
    import gc
    gc.collect()     # IOInterpreter closes its files in __del__
    return {'ok': True, 'plain': read3(d_plain, 'case'), 'opt': read3(d_opt, 'case'), 'main_calls': len(calls)}


def main():
    tmp = tempfile.mkdtemp(prefix='mm16.')
    try:
        for line in sys.stdin:
            line = line.strip()
            if not line:
                continue
            req = json.loads(line)
            try:
                res = run_case(req['src'], req['target'], tmp)
            except BaseException as e:  # noqa: BLE001
                tb = traceback.extract_tb(e.__traceback__)
                fr = tb[-1]
                res = {'ok': False, 'exc': f'{type(e).__name__} @{os.path.basename(fr.filename)}:{fr.lineno}',
                       'fn': fr.name, 'msg': str(e)[:300]}
            sys.stdout.write(json.dumps(res) + '\n')
            sys.stdout.flush()
    finally:
        shutil.rmtree(tmp, ignore_errors=True)


if __name__ == '__main__':
    main()

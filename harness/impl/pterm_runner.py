"""Implementation-side runner for C08 / C02 (run under /venv with /repo/generation/src on PYTHONPATH).

stdin: one JSON request per line; stdout: one JSON answer per line.
  {"cmd":"sig"}                                   -> library lemma signatures of Propositional
  {"cmd":"thunk", "case": CASE}                   -> build the ProofThunk with the REAL DSL, run it under every
                                                     interpreter stack, report verdicts / conclusions / traces
  {"cmd":"gen_thunks", "seed": str, "n": int}     -> generate n CASEs (library compositions by trial construction
                                                     with the real DSL + raw DSL compositions) and run each
  {"cmd":"module", "mod": MOD}                    -> build a ProofExp, serialize (both optimize settings) through
                                                     the real ProofExp.serialize, report the three byte strings
  {"cmd":"gen_modules", "seed": str, "n": int}    -> generate n MODs and serialize each
  {"cmd":"shipped"}                               -> the shipped modules through ProofExp.serialize

Pattern spec (JSON):  ["ev",n] ["sv",n] ["sym",name] ["imp",l,r] ["app",l,r] ["ex",x,p] ["mu",X,p]
                      ["mv",id,ef,sf,pos,neg,holes] ["es",p,x,plug] ["ss",p,X,plug] ["not",name,arg...]
Term spec:            ["p1"] ["p2"] ["p3"] ["q"] ["mp",a,b] ["gen",a,x] ["dyn",a,[[k,pat]..]] ["inst",a,[[k,pat]..]]
                      ["ax",pat] ["lib",name,[{"p":pat}|{"t":term}..]]
Model encoding (decimal tokens, prefix):
  pat : 0 n | 1 n | 2 n | 3 l r | 4 l r | 5 x p | 6 X p | 7 id (k v*)x5 | 8 p x plug | 9 p X plug
  term: 10 | 11 | 12 | 13 | 14 a b | 15 a x | 16 a n (k pat)* | 17 a n (k pat)* | 18 pat
All patterns are fully notation-expanded before they are encoded.
"""
from __future__ import annotations

import inspect
import io
import json
import os
import random
import re
import sys
import tempfile
from pathlib import Path

from frozendict import frozendict

from proof_generation import proof as proof_mod
from proof_generation.basic_interpreter import BasicInterpreter
from proof_generation.claim import Claim
from proof_generation.counting_interpreter import CountingInterpreter
from proof_generation.interpreter import ExecutionPhase
from proof_generation.optimizing_interpreters import InstantiationOptimizer, MemoizingInterpreter
from proof_generation.pattern import (
    App, ESubst, EVar, Exists, Implies, Instantiate, MetaVar, Mu, Notation, SSubst, SVar, Symbol,
    _and, _or, bot, equiv, neg, top,
)
from proof_generation.pretty_printing_interpreter import PrettyPrintingInterpreter
from proof_generation.proof import OutputFormat, ProofExp
from proof_generation.proofs.propositional import Propositional
from proof_generation.proved import Proved
from proof_generation.serializing_interpreter import SerializingInterpreter
from proof_generation.stateful_interpreter import StatefulInterpreter

import signal


class CaseTimeout(BaseException):
    pass


def _alarm(signum, frame):
    raise CaseTimeout()


signal.signal(signal.SIGALRM, _alarm)


class time_limit:
    """the toolkit's notation-aware == is exponential on nested notation; cases that exceed the budget
    are skipped (and counted), never judged"""

    def __init__(self, s):
        self.s = s

    def __enter__(self):
        signal.setitimer(signal.ITIMER_REAL, self.s)

    def __exit__(self, *a):
        signal.setitimer(signal.ITIMER_REAL, 0)
        return False


NOTATIONS = {'bot': bot, 'neg': neg, 'top': top, 'and': _and, 'or': _or, 'equiv': equiv}


# ------------------------------------------------------------------------------------------------
# patterns: spec -> Python object, full expansion, model encoding
# ------------------------------------------------------------------------------------------------

def mk_pat(s):
    k = s[0]
    if k == 'ev':
        return EVar(s[1])
    if k == 'sv':
        return SVar(s[1])
    if k == 'sym':
        return Symbol(s[1])
    if k == 'imp':
        return Implies(mk_pat(s[1]), mk_pat(s[2]))
    if k == 'app':
        return App(mk_pat(s[1]), mk_pat(s[2]))
    if k == 'ex':
        return Exists(s[1], mk_pat(s[2]))
    if k == 'mu':
        return Mu(s[1], mk_pat(s[2]))
    if k == 'mv':
        return MetaVar(s[1], tuple(EVar(i) for i in s[2]), tuple(SVar(i) for i in s[3]),
                       tuple(SVar(i) for i in s[4]), tuple(SVar(i) for i in s[5]), tuple(EVar(i) for i in s[6]))
    if k == 'es':
        return ESubst(mk_pat(s[1]), EVar(s[2]), mk_pat(s[3]))
    if k == 'ss':
        return SSubst(mk_pat(s[1]), SVar(s[2]), mk_pat(s[3]))
    if k == 'not':
        return NOTATIONS[s[1]](*[mk_pat(a) for a in s[2:]])
    if k == 'ninst':
        # a notation instance written directly, its dictionary in the GIVEN (possibly non-ascending) key order
        return Instantiate(mk_pat(s[1]), frozendict((kk, mk_pat(v)) for kk, v in s[2]))
    if k == 'pinst':
        # a partially applied notation instance instantiated further: Instantiate(body, d1).instantiate(d2)
        return Instantiate(mk_pat(s[1]), frozendict((kk, mk_pat(v)) for kk, v in s[2])).instantiate({kk: mk_pat(v) for kk, v in s[3]})
    raise ValueError(k)


def has_notation_spec(s):
    if not isinstance(s, list):
        return False
    if s and s[0] in ('not', 'ninst', 'pinst'):
        return True
    return any(has_notation_spec(x) for x in s)


def expand(p):
    """full notation expansion (the harness's own; C12 checks the toolkit's)"""
    while isinstance(p, Instantiate):
        p = p.simplify()
    if isinstance(p, (EVar, SVar, Symbol, MetaVar)):
        return p
    if isinstance(p, Implies):
        return Implies(expand(p.left), expand(p.right))
    if isinstance(p, App):
        return App(expand(p.left), expand(p.right))
    if isinstance(p, Exists):
        return Exists(p.var, expand(p.subpattern))
    if isinstance(p, Mu):
        return Mu(p.var, expand(p.subpattern))
    if isinstance(p, ESubst):
        return ESubst(expand(p.pattern), p.var, expand(p.plug))
    if isinstance(p, SSubst):
        return SSubst(expand(p.pattern), p.var, expand(p.plug))
    raise ValueError(type(p))


def has_notation(p):
    if isinstance(p, Instantiate):
        return True
    if isinstance(p, (Implies, App)):
        return has_notation(p.left) or has_notation(p.right)
    if isinstance(p, (Exists, Mu)):
        return has_notation(p.subpattern)
    if isinstance(p, (ESubst, SSubst)):
        return has_notation(p.pattern) or has_notation(p.plug)
    return False


class SymMap:
    """symbol name -> N, deliberately NOT the first-occurrence numbering of the serialiser"""

    def __init__(self):
        self.m = {}

    def get(self, name):
        if name not in self.m:
            self.m[name] = 3 + 7 * len(self.m)
        return self.m[name]


def enc_pat(p, sm):
    """tokens of an EXPANDED pattern"""
    if isinstance(p, EVar):
        return [0, p.name]
    if isinstance(p, SVar):
        return [1, p.name]
    if isinstance(p, Symbol):
        return [2, sm.get(p.name)]
    if isinstance(p, Implies):
        return [3] + enc_pat(p.left, sm) + enc_pat(p.right, sm)
    if isinstance(p, App):
        return [4] + enc_pat(p.left, sm) + enc_pat(p.right, sm)
    if isinstance(p, Exists):
        return [5, p.var] + enc_pat(p.subpattern, sm)
    if isinstance(p, Mu):
        return [6, p.var] + enc_pat(p.subpattern, sm)
    if isinstance(p, MetaVar):
        out = [7, p.name]
        for lst in (p.e_fresh, p.s_fresh, p.positive, p.negative, p.app_ctx_holes):
            out += [len(lst)] + [v.name for v in lst]
        return out
    if isinstance(p, ESubst):
        return [8] + enc_pat(p.pattern, sm) + [p.var.name] + enc_pat(p.plug, sm)
    if isinstance(p, SSubst):
        return [9] + enc_pat(p.pattern, sm) + [p.var.name] + enc_pat(p.plug, sm)
    raise ValueError(type(p))


def encx(p, sm):
    return enc_pat(expand(p), sm)


def enc_item(t, sm):
    if isinstance(t, Proved):
        return [1] + encx(t.conclusion, sm)
    return [0] + encx(t, sm)


def toks(l):
    return ' '.join(str(x) for x in l)


# ------------------------------------------------------------------------------------------------
# reifier: every ProofThunk built by the DSL carries the proof term it denotes (harness-side
# instrumentation of the ProofExp rule constructors; nothing in /repo is modified)
# ------------------------------------------------------------------------------------------------

_ORIG = {}


def install_reifier():
    P = proof_mod.ProofExp
    if _ORIG:
        return
    for n in ('prop1', 'prop2', 'prop3', 'exists_quantifier', 'modus_ponens', 'exists_generalization',
              'dynamic_inst', 'instantiate', 'load_axiom'):
        _ORIG[n] = getattr(P, n)

    def prop1(self):
        th = _ORIG['prop1'](self)
        th._pt = ('p1',)
        return th

    def prop2(self):
        th = _ORIG['prop2'](self)
        th._pt = ('p2',)
        return th

    def prop3(self):
        th = _ORIG['prop3'](self)
        th._pt = ('p3',)
        return th

    def exists_quantifier(self):
        th = _ORIG['exists_quantifier'](self)
        th._pt = ('q',)
        return th

    def modus_ponens(self, left, right):
        th = _ORIG['modus_ponens'](self, left, right)
        th._pt = ('mp', left._pt, right._pt)
        return th

    def exists_generalization(self, proved, var):
        th = _ORIG['exists_generalization'](self, proved, var)
        th._pt = ('gen', proved._pt, var.name)
        return th

    def dynamic_inst(self, pf, delta):
        items = list(delta.items())
        th = _ORIG['dynamic_inst'](self, pf, delta)
        if th is not pf:
            th._pt = ('dyn', pf._pt, items)
        return th

    def instantiate(self, proved, delta):
        items = list(delta.items())
        th = _ORIG['instantiate'](self, proved, delta)
        th._pt = ('inst', proved._pt, items)
        return th

    def load_axiom(self, axiom_term):
        th = _ORIG['load_axiom'](self, axiom_term)
        th._pt = ('ax', axiom_term)
        return th

    for f in (prop1, prop2, prop3, exists_quantifier, modus_ponens, exists_generalization, dynamic_inst,
              instantiate, load_axiom):
        setattr(P, f.__name__, f)


def enc_term(t, sm):
    k = t[0]
    if k == 'p1':
        return [10]
    if k == 'p2':
        return [11]
    if k == 'p3':
        return [12]
    if k == 'q':
        return [13]
    if k == 'mp':
        return [14] + enc_term(t[1], sm) + enc_term(t[2], sm)
    if k == 'gen':
        return [15] + enc_term(t[1], sm) + [t[2]]
    if k in ('dyn', 'inst'):
        out = [16 if k == 'dyn' else 17] + enc_term(t[1], sm) + [len(t[2])]
        for key, p in t[2]:
            out += [key] + encx(p, sm)
        return out
    if k == 'ax':
        return [18] + encx(t[1], sm)
    raise ValueError(k)


def spec_to_pt(s):
    k = s[0]
    if k in ('p1', 'p2', 'p3', 'q'):
        return (k,)
    if k == 'mp':
        return ('mp', spec_to_pt(s[1]), spec_to_pt(s[2]))
    if k == 'gen':
        return ('gen', spec_to_pt(s[1]), s[2])
    if k == 'dyn':
        if not s[2]:
            return spec_to_pt(s[1])
        return ('dyn', spec_to_pt(s[1]), [(kk, mk_pat(p)) for kk, p in s[2]])
    if k == 'inst':
        return ('inst', spec_to_pt(s[1]), [(kk, mk_pat(p)) for kk, p in s[2]])
    if k == 'ax':
        return ('ax', mk_pat(s[1]))
    raise ValueError('lib node')


def term_stats(t, acc=None):
    acc = acc if acc is not None else {}
    acc[t[0]] = acc.get(t[0], 0) + 1
    if t[0] == 'mp':
        term_stats(t[1], acc)
        term_stats(t[2], acc)
    elif t[0] in ('gen', 'dyn', 'inst'):
        term_stats(t[1], acc)
    return acc


def term_notation(t):
    if t[0] == 'mp':
        return term_notation(t[1]) or term_notation(t[2])
    if t[0] == 'gen':
        return term_notation(t[1])
    if t[0] in ('dyn', 'inst'):
        return term_notation(t[1]) or any(has_notation(p) for _, p in t[2])
    if t[0] == 'ax':
        return has_notation(t[1])
    return False


# ------------------------------------------------------------------------------------------------
# building thunks from specs with the real DSL
# ------------------------------------------------------------------------------------------------

def lib_signatures():
    sig = {}
    for name, fn in inspect.getmembers(Propositional, predicate=inspect.isfunction):
        if name.startswith('_') or name in dir(ProofExp):
            continue
        ps = list(inspect.signature(fn).parameters.values())[1:]
        kinds = []
        ok = True
        for p in ps:
            a = str(p.annotation)
            if a == 'Pattern':
                kinds.append('p')
            elif a == 'ProofThunk':
                kinds.append('t')
            else:
                ok = False
        if ok and str(inspect.signature(fn).return_annotation) == 'ProofThunk':
            sig[name] = kinds
    return sig


class Host:
    """a ProofExp carrying the axioms + an imported Propositional for the library lemmas"""

    def __init__(self, axioms, graph=None, P=None):
        """graph = {'subs': {name: {'axs': [pat spec], 'imports': [name]}}, 'imports': [name]}: an import graph below the
        top module.  A name is ONE ProofExp instance (importing it from two places is a diamond, listing it twice imports
        the same submodule twice); a name ending in '!' gives a fresh instance per import."""
        self.m = ProofExp(axioms=list(axioms))
        self.subs = {}
        self.graph = graph
        self.P = P or mk_pat
        if graph:
            for name in graph.get('imports', []):
                self.m.import_module(self.sub(name))
        self.prop = self.m.import_module(Propositional())

    def sub(self, name):
        if name in self.subs and not name.endswith('!'):
            return self.subs[name]
        spec = self.graph['subs'][name]
        sm_ = ProofExp(axioms=[self.P(a) for a in spec.get('axs', [])])
        self.subs[name] = sm_
        for imp in spec.get('imports', []):
            sm_.import_module(self.sub(imp))
        return sm_

    def owner(self, axiom):
        """the module whose load_axiom accepts this axiom: the top module first, then the submodules"""
        for mod_ in [self.m] + list(self.subs.values()):
            if axiom in mod_._axioms:
                return mod_
        return self.m

    def build(self, s):
        k = s[0]
        m = self.m
        if k == 'p1':
            return m.prop1()
        if k == 'p2':
            return m.prop2()
        if k == 'p3':
            return m.prop3()
        if k == 'q':
            return m.exists_quantifier()
        if k == 'mp':
            a = self.build(s[1])
            b = self.build(s[2])
            return m.modus_ponens(a, b)
        if k == 'gen':
            return m.exists_generalization(self.build(s[1]), EVar(s[2]))
        if k == 'dyn':
            return m.dynamic_inst(self.build(s[1]), {kk: mk_pat(p) for kk, p in s[2]})
        if k == 'inst':
            return m.instantiate(self.build(s[1]), {kk: mk_pat(p) for kk, p in s[2]})
        if k == 'ax':
            a = mk_pat(s[1])
            return (self.owner(a) if len(s) > 2 and s[2] == 'any' else m).load_axiom(a)
        if k == 'lib':
            args = []
            for a in s[2]:
                args.append(mk_pat(a['p']) if 'p' in a else self.build(a['t']))
            return getattr(self.prop, s[1])(*args)
        raise ValueError(k)


# ------------------------------------------------------------------------------------------------
# interpreter stacks
# ------------------------------------------------------------------------------------------------

# (name, base, layers outermost-first);  layer = 'M' (memoiser with the case's set S) | 'M2' (with S2) | 'I'
STACKS = [
    ('basic', 'basic', []),
    ('stateful', 'stateful', []),
    ('counting', 'counting', []),
    ('serializing', 'serializing', []),
    ('pretty', 'pretty', []),
    ('memo/basic', 'basic', ['M']),
    ('memo/stateful', 'stateful', ['M']),
    ('memo/counting', 'counting', ['M']),
    ('memo/serializing', 'serializing', ['M']),
    ('memo/pretty', 'pretty', ['M']),
    ('instopt/basic', 'basic', ['I']),
    ('instopt/stateful', 'stateful', ['I']),
    ('instopt/serializing', 'serializing', ['I']),
    ('memo/instopt/stateful', 'stateful', ['M', 'I']),
    ('instopt/memo/serializing', 'serializing', ['I', 'M']),
    ('memo/memo/stateful', 'stateful', ['M2', 'M']),
]


def make_base(kind, phase, claims, axioms_mem, stack):
    outs = None
    if kind == 'basic':
        b = BasicInterpreter(phase)
    elif kind == 'stateful':
        b = StatefulInterpreter(phase, claims)
    elif kind == 'counting':
        b = CountingInterpreter(phase, claims)
    elif kind == 'serializing':
        outs = io.BytesIO()
        b = SerializingInterpreter(phase, outs, claims)
    elif kind == 'pretty':
        outs = io.StringIO()
        b = PrettyPrintingInterpreter(phase, outs, claims)
    else:
        raise ValueError(kind)
    if kind != 'basic':
        b.memory = list(axioms_mem)
        b.stack = list(stack)
    return b, outs


def make_stack(kind, layers, phase, claims, axioms_mem, stack, S, S2):
    base, outs = make_base(kind, phase, claims, axioms_mem, stack)
    it = base
    for l in reversed(layers):
        if l == 'M':
            it = MemoizingInterpreter(it, set(S))
        elif l == 'M2':
            it = MemoizingInterpreter(it, set(S2))
        elif l == 'I':
            it = InstantiationOptimizer(it)
    return it, base, outs


PRETTY_OPS = {'EVar': 2, 'SVar': 3, 'Symbol': 4, 'Implies': 5, 'App': 6, 'Mu': 7, 'Exists': 8, 'MetaVar': 9,
              'ESubst': 10, 'SSubst': 11, 'Prop1': 12, 'Prop2': 13, 'Prop3': 14, 'Quantifier': 15, 'ModusPonens': 21,
              'Generalization': 22, 'Instantiate': 26, 'Pop': 27, 'Save': 28, 'Load': 29, 'Publish': 30}


def pretty_tokens(text, sm):
    """first line(s) written per call -> [[opcode, operands..]..]; the '\\t' stack dump lines are skipped"""
    out = []
    lines = text.split('\n')
    i = 0
    listre = re.compile(r'(eFresh|sFresh|pos|neg|appctx), len=(\d+) ((?:[xX]\d+ )*)$')
    while i < len(lines):
        ln = lines[i]
        i += 1
        if ln == '' or ln.startswith('\t'):
            continue
        if ln.startswith('MetaVar '):
            m = re.match(r'MetaVar (\d+)(.*)$', ln)
            lists = {'eFresh': [], 'sFresh': [], 'pos': [], 'neg': [], 'appctx': []}
            rest = m.group(2)
            while rest:
                mm = listre.match(rest)
                if not mm:
                    raise ValueError('pretty metavar line: ' + ln)
                lists[mm.group(1)] = [int(v[1:]) for v in mm.group(3).split()]
                rest = lines[i] if i < len(lines) else ''
                i += 1
                if not listre.match(rest):
                    i -= 1 if rest != '' else 0
                    break
            tok = [9, int(m.group(1))]
            for k in ('eFresh', 'sFresh', 'pos', 'neg', 'appctx'):
                tok += [len(lists[k])] + lists[k]
            out.append(tok)
            continue
        w = ln.split(' ', 1)
        op = PRETTY_OPS.get(w[0])
        if op is None:
            raise ValueError('pretty line: ' + repr(ln))
        arg = w[1] if len(w) > 1 else ''
        if w[0] in ('EVar', 'SVar', 'Mu', 'Exists', 'Generalization'):
            out.append([op, int(arg)])
        elif w[0] == 'Symbol':
            out.append([op, sm.get(arg)])
        elif w[0] in ('ESubst', 'SSubst'):
            out.append([op, int(arg.split('=')[1])])
        elif w[0] == 'Instantiate':
            out.append([op] + [int(x) for x in arg.split(', ') if x != ''])
        elif w[0] == 'Load':
            out.append([op, int(arg.rsplit('=', 1)[1])])
        else:
            out.append([op])
    return out


def run_one(thunk, kind, layers, axioms, stack, S, S2, sm):
    phase = ExecutionPhase.Proof
    mem = [Proved(a) for a in axioms]
    it, base, outs = make_stack(kind, layers, phase, [], mem, stack, S, S2)
    try:
        proved = thunk(it)
    except Exception as e:  # noqa: BLE001  (an exception of any class is the verdict FAIL)
        return {'ok': False, 'exc': type(e).__name__}
    r = {'ok': True, 'conc': toks(encx(proved.conclusion, sm))}
    if kind != 'basic':
        r['stack'] = toks([len(base.stack)] + [x for t in reversed(base.stack) for x in enc_item(t, sm)])
        r['mem'] = toks([len(base.memory)] + [x for t in base.memory for x in enc_item(t, sm)])
    if kind == 'serializing':
        r['bytes'] = toks(list(outs.getvalue()))
    if kind == 'pretty':
        try:
            tk = pretty_tokens(outs.getvalue(), sm)
            r['tokens'] = ' ; '.join(toks(t) for t in tk)
        except ValueError as e:
            r['tokens'] = 'UNPARSED ' + str(e)
    if kind == 'counting':
        u = []
        for p, st in base._pattern_usage.items():
            u.append(toks(encx(p, sm) + [st.uses]))
        r['uses'] = ' ; '.join(u)
    # client epilogue (implementation-only oracle, after the state above was recorded): what a client such as the Metamath translator does
    # between two proof expressions -- save the proof just obtained, then build its conclusion again as a pattern
    try:
        it.save('client-saved', proved)
        it.pattern(proved.conclusion)
        r['epilogue'] = 'ok'
    except Exception as e:  # noqa: BLE001
        r['epilogue'] = type(e).__name__
    return r


def fresh_disagrees(thunk_pt, host):
    """D3 flag: does some Generalization in the term meet a consequent on which the toolkit's
    notation-level evar_is_free differs from the expanded pattern's?  (all interpreters share that
    judgement, so it cannot make them disagree with each other, only with the expanded model)"""
    flag = [False]

    def conc_of(t):
        k = t[0]
        m = host.m
        try:
            if k == 'p1':
                return _ORIG['prop1'](m).conc
            if k == 'p2':
                return _ORIG['prop2'](m).conc
            if k == 'p3':
                return _ORIG['prop3'](m).conc
            if k == 'q':
                return _ORIG['exists_quantifier'](m).conc
            if k == 'mp':
                a = conc_of(t[1])
                conc_of(t[2])
                return Implies.extract(a)[1]
            if k == 'gen':
                a = conc_of(t[1])
                l, r = Implies.extract(a)
                if r.evar_is_free(t[2]) != expand(r).evar_is_free(t[2]):
                    flag[0] = True
                return Implies(Exists(t[2], l), r)
            if k in ('dyn', 'inst'):
                a = conc_of(t[1])
                return a.instantiate(dict(t[2])) if (t[2] or k == 'inst') else a
            if k == 'ax':
                return t[1]
        except Exception:  # noqa: BLE001
            return None
        return None

    try:
        conc_of(thunk_pt)
    except Exception:  # noqa: BLE001
        pass
    return flag[0]


def max_id(tokens):
    return max(tokens) if tokens else 0


def run_case(case):
    """case = {'axs':[pat], 'term': term-spec, 'stack':[pat], 'S':[pat], 'S2':[pat]}"""
    install_reifier()
    sm = SymMap()
    axioms = [mk_pat(a) for a in case.get('axs', [])]
    stack = [mk_pat(a) for a in case.get('stack', [])]
    S = [mk_pat(a) for a in case.get('S', [])]
    S2 = [mk_pat(a) for a in case.get('S2', [])]
    host = Host(axioms)
    res = {'built': False}
    res['axs'] = toks([len(axioms)] + [x for a in axioms for x in encx(a, sm)])
    res['stack0'] = toks([len(stack)] + [x for t in reversed(stack) for x in enc_item(t, sm)])
    res['mem0'] = toks([len(axioms)] + [x for a in axioms for x in enc_item(Proved(a), sm)])
    res['S'] = toks([len(S)] + [x for a in S for x in encx(a, sm)])
    res['S2'] = toks([len(S2)] + [x for a in S2 for x in encx(a, sm)])
    res['notation'] = has_notation_spec(case)
    res['mvfields'] = sorted(mv_fields(case, set()))
    try:
        thunk = host.build(case['term'])
    except Exception as e:  # noqa: BLE001
        res['build_exc'] = type(e).__name__
        try:
            res['term'] = toks(enc_term(spec_to_pt(case['term']), sm))     # raw DSL specs only
        except Exception:  # noqa: BLE001
            res['term'] = None
        return res
    res['built'] = True
    pt = thunk._pt
    res['term'] = toks(enc_term(pt, sm))
    res['stats'] = term_stats(pt)
    res['notation'] = res['notation'] or term_notation(pt) or any(has_notation(a) for a in axioms + stack + S + S2)
    res['static'] = toks(encx(thunk.conc, sm))
    res['d3'] = fresh_disagrees(pt, host)
    # S membership in the toolkit is hash based; with notation-laden members it is not the expanded equality
    res['runs'] = {}
    for name, kind, layers in STACKS:
        res['runs'][name] = run_one(thunk, kind, layers, axioms, stack, S, S2, sm)
    return res


# ------------------------------------------------------------------------------------------------
# generators (driven by a seed string handed over by the check module = common.rng_for's seed)
# ------------------------------------------------------------------------------------------------

class Gen:
    def __init__(self, rng):
        self.r = rng

    def var(self):
        return self.r.choice([0, 0, 1, 1, 2, 3])

    def atom(self, style):
        r = self.r
        c = r.random()
        if style == 'concrete':
            if c < 0.4:
                return ['sym', 's' + str(r.randrange(4))]
            if c < 0.8:
                return ['ev', self.var()]
            return ['sv', self.var()]
        if c < 0.6:
            return ['mv', r.randrange(4), [], [], [], [], []]
        # constrained metavariables: every one of the five lists is exercised (e_fresh, s_fresh, positive, negative,
        # app_ctx_holes); holes are drawn from {3,4}, disjoint from e_fresh (subset of {0,1,2}), so that the pattern stays
        # checker-well-formed (the overlapping case is the D9f stream of C02)
        if c < 0.68:
            return ['mv', r.randrange(4), sorted(r.sample(range(3), r.randrange(1, 3))), [], [], [], []]
        if c < 0.73:
            return ['mv', r.randrange(4), [], [r.randrange(3)], [r.randrange(3)], [], []]
        if c < 0.77:
            return ['mv', r.randrange(4), [], [], [], sorted(r.sample(range(3), r.randrange(1, 3))), []]
        if c < 0.83:
            return ['mv', r.randrange(4), [], [], [], [], sorted(r.sample([3, 4], r.randrange(1, 3)))]
        if c < 0.88:
            return ['mv', r.randrange(4), [r.randrange(3)], [r.randrange(3)], [r.randrange(3)], [r.randrange(3)],
                    [r.choice([3, 4])]]
        if c < 0.96:
            return ['sym', 's' + str(r.randrange(4))]
        return ['ev', self.var()]

    def pat(self, depth, style):
        """style: concrete | schematic | notation"""
        r = self.r
        if depth <= 0 or r.random() < 0.25:
            return self.atom(style)
        c = r.random()
        if style == 'notation' and c < 0.12:
            # notation instances whose dictionary is NOT in ascending key order (hand-written, or a partial application
            # instantiated further); the plugs are pairwise different
            mvs = lambda i: ['mv', i, [], [], [], [], []]  # noqa: E731
            body = r.choice([['imp', mvs(0), mvs(1)], ['app', mvs(1), ['imp', mvs(0), mvs(2)]], ['imp', ['imp', mvs(2), mvs(0)], mvs(1)]])
            keys = [0, 1, 2] if body[0] != 'imp' or body[1][0] == 'imp' else [0, 1]
            plugs = {}
            for kk in keys:
                v = self.pat(depth - 1, style)
                while v in plugs.values():
                    v = ['app', ['sym', 's' + str(r.randrange(4))], v]
                plugs[kk] = v
            order = list(reversed(keys)) if r.random() < 0.6 else r.sample(keys, len(keys))
            if order == sorted(order):
                order = list(reversed(order))
            if r.random() < 0.5:
                return ['ninst', body, [[kk, plugs[kk]] for kk in order]]
            return ['pinst', body, [[order[0], plugs[order[0]]]], [[kk, plugs[kk]] for kk in order[1:]]]
        if style == 'notation' and c < 0.45:
            n = r.choice(['bot', 'neg', 'neg', 'top', 'and', 'or', 'equiv'] if depth <= 1 else ['bot', 'neg', 'neg', 'top', 'and', 'or'])
            ar = NOTATIONS[n].arity
            return ['not', n] + [self.pat(depth - 1, style) for _ in range(ar)]
        if c < 0.6:
            return ['imp', self.pat(depth - 1, style), self.pat(depth - 1, style)]
        if c < 0.72:
            return ['app', self.pat(depth - 1, style), self.pat(depth - 1, style)]
        if c < 0.82:
            return ['ex', self.var(), self.pat(depth - 1, style)]
        if c < 0.87:
            # mostly positive bodies
            x = self.var()
            if style != 'concrete' and r.random() < 0.5:
                # fixpoint-statement shape: the body mentions metavariables constrained ONLY by polarity in the bound
                # variable (empty e_fresh / s_fresh / app_ctx_holes); positive as written, negative under an implication
                pos = ['mv', r.randrange(4), [], [], [x], [], []]
                ng = ['mv', r.randrange(4), [], [], [], [x], []]
                both = ['mv', r.randrange(4), [], [], [x], [x], []]
                return ['mu', x, r.choice([pos, ['imp', ng, pos], ['app', pos, both], ['imp', ['imp', pos, ng], ['sv', x]],
                                           ['ex', self.var(), ['imp', ng, ['app', ['sym', 's1'], pos]]]])]
            return ['mu', x, r.choice([['sv', x], ['imp', self.pat(depth - 2, 'concrete'), ['sv', x]], self.pat(depth - 1, style)])]
        if c < 0.90 and style != 'concrete' and r.random() < 0.35:
            return self.stacked_subst(depth)
        if c < 0.95 and style != 'concrete':
            head = ['mv', r.randrange(4), [], [], [], [], []]
            if r.random() < 0.2:
                head = ['es', head, self.var(), self.pat(depth - 2, style)]
            k = 'es' if r.random() < 0.6 else 'ss'
            return [k, head, self.var(), self.pat(depth - 1, style)]
        return self.atom(style)

    def stacked_subst(self, depth=1):
        """phi[plug1/x][plug2/x]: two (or three) substitutions stacked on the SAME variable whose inner plug mentions that
        variable again (so the outer one is not redundant: the variable is not fresh in the inner substitution).
        Checker-well-formed; needs the exact e_fresh/s_fresh arms for ESubst/SSubst."""
        r = self.r
        x = self.var()
        y = (x + 1 + r.randrange(3)) % 4
        k = r.choice(['es', 'es', 'ss'])
        v = (lambda n: ['ev', n]) if k == 'es' else (lambda n: ['sv', n])
        inner_plug = r.choice([['app', v(x), v(y)], ['imp', v(x), ['sym', 's' + str(r.randrange(3))]], ['app', ['sym', 's0'], v(x)]])
        p = [k, ['mv', r.randrange(4), [], [], [], [], []], x, inner_plug]
        for _ in range(r.choice([1, 1, 2])):
            outer_plug = r.choice([['sym', 's' + str(r.randrange(3))], v(y), ['app', v(x), ['sym', 's1']],
                                   self.pat(max(depth - 2, 0), 'concrete')])
            if outer_plug == v(x):
                outer_plug = ['sym', 's2']
            p = [k, p, x, outer_plug]
        return p

    def style(self):
        return self.r.choice(['concrete', 'schematic', 'schematic', 'notation', 'notation'])

    def delta(self, nkeys=None):
        r = self.r
        n = nkeys if nkeys is not None else r.choice([1, 1, 2, 2, 3])
        keys = r.sample(range(4), n)
        st = self.style()
        return [[k, self.pat(r.randrange(3), st)] for k in keys]


def mv_fields(s, acc):
    """which of the five MetaVar lists occur non-empty in a spec (coverage histogram)"""
    if isinstance(s, list) and s and s[0] == 'mv':
        for name, l in zip(('e_fresh', 's_fresh', 'positive', 'negative', 'app_ctx_holes'), s[2:7]):
            if l:
                acc.add(name)
    elif isinstance(s, list):
        for x in s:
            mv_fields(x, acc)
    elif isinstance(s, dict):
        for x in s.values():
            mv_fields(x, acc)
    return acc


def subpatterns_spec(s, acc):
    if isinstance(s, list) and s and isinstance(s[0], str):
        if s[0] in ('ev', 'sv', 'sym', 'imp', 'app', 'ex', 'mu', 'mv', 'es', 'ss', 'not', 'ninst', 'pinst'):
            acc.append(s)
        for x in s[1:]:
            subpatterns_spec(x, acc)
    elif isinstance(s, list):
        for x in s:
            subpatterns_spec(x, acc)
    elif isinstance(s, dict):
        for x in s.values():
            subpatterns_spec(x, acc)
    return acc


def gen_thunk_cases(seedstr, n):
    """library compositions (depth <= 4) by trial construction with the real DSL, raw DSL
    compositions (valid and failing), static-instantiate and empty-delta cases"""
    install_reifier()
    rng = random.Random(seedstr)
    g = Gen(rng)
    sig = lib_signatures()
    names = sorted(sig)
    pat_only = [nm for nm in names if all(k == 'p' for k in sig[nm])]
    with_thunk = [nm for nm in names if any(k == 't' for k in sig[nm])]
    cases = []
    while len(cases) < n:
        naxs = rng.choice([0, 0, 1, 2])
        axs = [g.pat(rng.randrange(1, 3), g.style()) for _ in range(naxs)]
        # implication-shaped axioms make MP / library rules applicable
        axs = [a if rng.random() < 0.4 else ['imp', g.pat(1, 'schematic'), a] for a in axs]
        host = Host([mk_pat(a) for a in axs])
        pool = []      # (spec, depth)

        def try_add(spec, depth, pool=pool, host=host):
            try:
                with time_limit(1.0):
                    th = host.build(spec)
            except (Exception, CaseTimeout):  # noqa: BLE001
                return None
            pool.append((spec, depth, th))
            return th

        for a in axs:
            try_add(['ax', a], 0)
        for _ in range(rng.randrange(2, 5)):
            nm = rng.choice(pat_only)
            st = g.style()
            try_add(['lib', nm, [{'p': g.pat(rng.randrange(3), st)} for _ in sig[nm]]], 1)
        for prim in (['p1'], ['p2'], ['p3'], ['q']):
            if rng.random() < 0.3:
                try_add(prim, 0)
        bad = []
        for _ in range(rng.randrange(3, 9)):
            c = rng.random()
            if not pool:
                break
            if c < 0.55:
                nm = rng.choice(with_thunk)
                for _attempt in range(6):
                    args = []
                    d = 0
                    for k in sig[nm]:
                        if k == 'p':
                            args.append({'p': g.pat(rng.randrange(3), g.style())})
                        else:
                            sp, dd, _ = rng.choice(pool)
                            d = max(d, dd)
                            args.append({'t': sp})
                    if d >= 4:
                        continue
                    spec = ['lib', nm, args]
                    if try_add(spec, d + 1) is not None:
                        break
                    bad.append(spec)
            elif c < 0.7:
                sp, dd, th = rng.choice(pool)
                spec = ['dyn', sp, g.delta()]
                if try_add(spec, dd) is None:
                    bad.append(spec)
            elif c < 0.85:
                (s1, d1, t1), (s2, d2, t2) = rng.choice(pool), rng.choice(pool)
                # make the antecedent fit by instantiating prop1: p -> (q -> p) with p := conc
                spec = ['mp', ['dyn', ['p1'], [[0, ['mv', 0, [], [], [], [], []]]]], s1]
                spec = rng.choice([spec, ['mp', s1, s2]])
                if try_add(spec, max(d1, d2)) is None:
                    bad.append(spec)
            else:
                sp, dd, th = rng.choice(pool)
                spec = ['gen', sp, g.var()]
                if try_add(spec, dd) is None:
                    bad.append(spec)
        # raw / failing stream
        raw = []
        c = rng.random()
        pick = (lambda: rng.choice(pool)[0]) if pool else (lambda: ['p1'])
        if c < 0.15:
            raw.append(['inst', pick(), g.delta()])                       # D10
        elif c < 0.3:
            raw.append(['inst', pick(), []])                              # D11
        elif c < 0.4:
            raw.append(['mp', pick(), pick()])
        elif c < 0.5:
            raw.append(['gen', pick(), g.var()])
        elif c < 0.6:
            raw.append(['dyn', pick(), [[rng.randrange(4), ['es', ['imp', ['ev', 0], ['ev', 1]], 0, ['ev', 2]]]]])   # ill-shaped
        elif c < 0.68:
            raw.append(['ax', g.pat(1, 'concrete')])
        elif c < 0.76:
            raw.append(['dyn', pick(), [[rng.randrange(3), ['ev', rng.choice([255, 256, 300])]]]])     # byte range
        elif c < 0.84:
            raw.append(['dyn', ['inst', pick(), g.delta()], g.delta()])
        elif c < 0.92:
            raw.append(['mp', ['dyn', ['p1'], g.delta(2)], pick()])
        else:
            raw.append(['gen', ['dyn', ['p2'], g.delta()], g.var()])
        chosen = [p[0] for p in pool if p[1] >= 1]
        rng.shuffle(chosen)
        chosen = chosen[:3] + raw + bad[:1]
        for spec in chosen:
            subs = subpatterns_spec(spec, []) + subpatterns_spec(axs, [])
            S = [rng.choice(subs) for _ in range(rng.randrange(0, 4))] if subs else []
            S2 = [rng.choice(subs) for _ in range(rng.randrange(0, 2))] if subs else []
            stack = [] if rng.random() < 0.6 else [g.pat(1, 'concrete') for _ in range(rng.randrange(1, 3))]
            cases.append({'axs': axs, 'term': spec, 'stack': stack, 'S': S, 'S2': S2})
            if len(cases) >= n:
                break
    return cases


# ------------------------------------------------------------------------------------------------
# modules (C02)
# ------------------------------------------------------------------------------------------------

_FINALIZED = []


def install_finalize_probe():
    if getattr(CountingInterpreter, '_verif_probe', False):
        return
    orig = CountingInterpreter.finalize

    def finalize(self):
        s = orig(self)
        _FINALIZED.append(s)
        return s

    CountingInterpreter.finalize = finalize
    CountingInterpreter._verif_probe = True


# model_memo_set: MemoizingInterpreter tests `p in self._patterns_for_memoization` on a Python set, i.e. by hash first.
# BasicInterpreter.prop3 builds its conclusion with the notation bot() (an Instantiate object), so even the memoisation
# set of a notation-free module contains Instantiate-bearing members; their hash differs from the hash of any expanded
# pattern handed to pattern(), so they can never be hit.  The model's set is therefore the notation-free members.


def build_module(mod, expanded=False):
    """mod = {'axs':[pat], 'proofs':[term], 'claims': None | [pat]}  (claims default: the advertised
    conclusions of the proofs).  expanded=True builds the notation-free twin."""
    install_reifier()
    P = (lambda s: expand(mk_pat(s))) if expanded else mk_pat
    axioms = [P(a) for a in mod.get('axs', [])]
    host = Host(axioms, mod.get('graph'), P)
    if expanded:
        thunks0 = [Host([mk_pat(a) for a in mod.get('axs', [])], mod.get('graph')).build(t) for t in mod['proofs']]
        thunks = [rebuild_expanded(host, th._pt) for th in thunks0]
    else:
        thunks = [host.build(t) for t in mod['proofs']]
    if mod.get('claims') is None:
        claims = [th.conc for th in thunks]
    else:
        claims = [P(c) for c in mod['claims']]
    if mod.get('claims_perm'):
        claims = [claims[i] for i in mod['claims_perm']]       # proofs listed in a different order than the claims
    claims = claims + [P(c) for c in mod.get('claims_extra', [])]
    if expanded:
        claims = [expand(c) for c in claims]
    m = host.m
    for c in claims:
        m._claims.append(c)
    for th in thunks:
        m._proof_expressions.append(th)
    return m, thunks, gamma_axioms(m), claims      # axioms in gamma-phase order (submodules first, duplicates kept)


def rebuild_expanded(host, pt):
    m = host.m
    k = pt[0]
    if k == 'p1':
        return m.prop1()
    if k == 'p2':
        return m.prop2()
    if k == 'p3':
        return m.prop3()
    if k == 'q':
        return m.exists_quantifier()
    if k == 'mp':
        return m.modus_ponens(rebuild_expanded(host, pt[1]), rebuild_expanded(host, pt[2]))
    if k == 'gen':
        return m.exists_generalization(rebuild_expanded(host, pt[1]), EVar(pt[2]))
    if k == 'dyn':
        return m.dynamic_inst(rebuild_expanded(host, pt[1]), {kk: expand(p) for kk, p in pt[2]})
    if k == 'inst':
        return m.instantiate(rebuild_expanded(host, pt[1]), {kk: expand(p) for kk, p in pt[2]})
    if k == 'ax':
        a = expand(pt[1])
        return host.owner(a).load_axiom(a)
    raise ValueError(k)


def serialize_real(m, optimize):
    """the real entry point ProofExp.serialize (proof.py:269) writing the three files"""
    install_finalize_probe()
    d = tempfile.mkdtemp(prefix='pi2ser.')
    del _FINALIZED[:]
    try:
        try:
            m.serialize(Path(d) / 'out', OutputFormat.Binary, optimize)
        except Exception as e:  # noqa: BLE001
            return {'ok': False, 'exc': type(e).__name__, 'msg': str(e)[:200]}
        import gc
        gc.collect()      # IOInterpreter closes its last stream in __del__
        out = {'ok': True}
        for ext in ('gamma', 'claim', 'proof'):
            with open(os.path.join(d, 'out.ml-' + ext), 'rb') as f:
                out[ext] = f.read().hex() or '-'
        if optimize:
            out['S'] = list(_FINALIZED[-1]) if _FINALIZED else []
        return out
    finally:
        for f in os.listdir(d):
            os.unlink(os.path.join(d, f))
        os.rmdir(d)


def run_module(mod):
    sm = SymMap()
    res = {'built': False}
    try:
        m, thunks, axioms, claims = build_module(mod)
    except Exception as e:  # noqa: BLE001
        res['build_exc'] = type(e).__name__
        return res
    res['built'] = True
    notation = any(term_notation(th._pt) for th in thunks) or any(has_notation(p) for p in axioms + claims)
    res['notation'] = notation
    res['real'] = {}
    for opt in (False, True):
        r = serialize_real(m, opt)
        if r.get('ok') and opt:
            S = r.pop('S')
            r['S_notation'] = any(has_notation(p) for p in S)
            r['S'] = toks([len(S)] + [x for p in sorted(S, key=repr) for x in encx(p, sm)])
        res['real']['opt' if opt else 'plain'] = r
    # the notation-free twin: same module with every pattern expanded (what the model is about)
    try:
        mx, thx, axx, clx = build_module(mod, expanded=True)
        res['twin'] = {}
        for opt in (False, True):
            r = serialize_real(mx, opt)
            if r.get('ok') and opt:
                S = [p for p in r.pop('S') if not has_notation(p)]     # see model_memo_set
                r['S'] = toks([len(S)] + [x for p in sorted(S, key=repr) for x in encx(p, sm)])
            res['twin']['opt' if opt else 'plain'] = r
        res['model'] = {
            'axs': toks([len(axx)] + [x for a in axx for x in enc_pat(a, sm)]),
            'claims': toks([len(clx)] + [x for a in clx for x in enc_pat(a, sm)]),
            'proofs': toks([len(thx)] + [x for th in thx for x in enc_term(th._pt, sm)]),
        }
        res['stats'] = {}
        for th in thx:
            term_stats(th._pt, res['stats'])
    except Exception as e:  # noqa: BLE001
        res['twin_exc'] = type(e).__name__ + ': ' + str(e)[:200]
    return res


def gen_modules(seedstr, n, illformed=False):
    """valid stream: 1-3 proofs over common axioms, claims = advertised conclusions.
    illformed stream: the same plus ONE operand the toolkit accepts and the checker must reject (D9 family)"""
    install_reifier()
    rng = random.Random(seedstr)
    cases = gen_thunk_cases(seedstr + ':t', n * 3)
    mods = []
    i = 0
    mv = lambda i, ef=(), sf=(), pos=(), neg=(), holes=(): ['mv', i, list(ef), list(sf), list(pos), list(neg), list(holes)]  # noqa: E731
    botp = ['mu', 0, ['sv', 0]]
    while len(mods) < n and i < len(cases):
        k = rng.choice([1, 1, 2, 3])
        group = cases[i:i + k]
        i += k
        axs = list(group[0]['axs'])
        proofs = []
        for c in group:
            if c['axs'] != axs:
                continue
            if 'inst' in json.dumps(c['term']) and rng.random() < 0.9:
                continue
            try:
                with time_limit(2.0):
                    Host([mk_pat(a) for a in axs]).build(c['term'])
            except (Exception, CaseTimeout):  # noqa: BLE001
                if rng.random() < 0.9:
                    continue
            proofs.append(c['term'])
        if not proofs:
            continue
        mod = {'axs': axs, 'proofs': proofs, 'claims': None}
        if rng.random() < 0.35:
            # import graphs with repeated submodules / duplicate axioms, and a load of an axiom declared AFTER the duplicates
            g = Gen(rng)
            base_ax = [g.pat(rng.randrange(1, 3), rng.choice(['concrete', 'schematic'])) for _ in range(rng.choice([1, 1, 2]))]
            shape = rng.choice(['diamond', 'twice', 'two-instances', 'dup-in-module', 'chain-dup'])
            own = list(axs) if axs else [g.pat(2, 'concrete')]
            if shape == 'diamond':
                graph = {'subs': {'base': {'axs': base_ax}, 'left': {'axs': [g.pat(1, 'concrete')] if rng.random() < 0.5 else [], 'imports': ['base']},
                                  'right': {'axs': [], 'imports': ['base']}}, 'imports': ['left', 'right']}
            elif shape == 'twice':
                graph = {'subs': {'base': {'axs': base_ax}}, 'imports': ['base', 'base']}
            elif shape == 'two-instances':
                graph = {'subs': {'base!': {'axs': base_ax}}, 'imports': ['base!', 'base!']}
            elif shape == 'chain-dup':
                graph = {'subs': {'base': {'axs': base_ax + base_ax[:1]}, 'mid': {'axs': base_ax[:1], 'imports': ['base']}}, 'imports': ['mid']}
            else:
                graph = None
                own = base_ax + base_ax[:1] + own
            mod['axs'] = own
            if graph:
                mod['graph'] = graph
            mod['shape'] = shape
            late = own[-1]
            mod['proofs'] = proofs + [rng.choice([['ax', late], ['mp', ['dyn', ['p1'], [[0, late], [1, base_ax[0]]]], ['ax', late]]])]
            if rng.random() < 0.5:
                mod['proofs'].append(['ax', base_ax[0], 'any'])
        if rng.random() < 0.3:
            # an axiom with a PENDING substitution phi_i[psi/x]; the proof instantiates a metavariable that occurs only in
            # the plug psi (phi_i stays schematic), only phi_i, or both
            g = Gen(rng)
            mvs = lambda i: ['mv', i, [], [], [], [], []]  # noqa: E731
            x = rng.randrange(3)
            k = rng.choice(['es', 'es', 'ss'])
            v = (lambda n: ['ev', n]) if k == 'es' else (lambda n: ['sv', n])
            plug = rng.choice([mvs(1), ['app', mvs(1), v(x)], ['imp', mvs(1), mvs(2)], ['app', ['sym', 's0'], mvs(1)]])
            pend = [k, mvs(0), x, plug]
            ax = rng.choice([['imp', mvs(0), pend], ['imp', ['ex', (x + 1) % 3, mvs(1)], ['imp', mvs(0), pend]], ['imp', pend, mvs(3)]])
            c1 = g.pat(rng.randrange(2), 'concrete')
            if c1 == v(x):
                c1 = ['sym', 's2']
            which = rng.choice(['plug-only', 'plug-only', 'pattern-only', 'both'])
            d = {'plug-only': [[1, c1]], 'pattern-only': [[0, ['app', ['sym', 's3'], v(x)]]],
                 'both': [[0, ['app', ['sym', 's3'], v(x)]], [1, c1]]}[which]
            mod['axs'] = mod['axs'] + [ax]
            mod['proofs'] = mod['proofs'] + [['dyn', ['ax', ax], d]]
            mod['pending_subst'] = which
        if rng.random() < 0.15:
            # the Quantifier axiom phi0[x1/x0] -> exists x0 . phi0 (and so a pending substitution) instantiated with a pattern
            # under a binder: mu X_k / exists x_k for every small k, incl. the index of the plug's variable (mu X1 with plug x1
            # is fine: a mu binds a SET variable; exists x1 would capture and is left to the D9c stream)
            kk = rng.randrange(4)
            body = rng.choice([['mu', kk, ['app', ['ev', 0], ['sv', kk]]], ['mu', kk, ['imp', ['sym', 's0'], ['app', ['sv', kk], ['ev', 0]]]],
                               ['ex', rng.choice([0, 2, 3]), ['app', ['ev', 0], ['sym', 's1']]],
                               ['mu', kk, ['ex', rng.choice([2, 3]), ['app', ['ev', 0], ['sv', kk]]]]])
            mod['proofs'] = mod['proofs'] + [['dyn', ['q'], [[0, body]]]]
            mod['quantifier_under_binder'] = True
        if rng.random() < 0.12:
            # the STATIC rule ProofExp.instantiate (pushes no plugs) as the very first step of the proof phase, i.e. on a
            # modelled stack shorter than its delta: the toolkit must refuse (or the checker accept); with an empty delta it is fine
            gq = Gen(rng)
            c1, c2 = gq.pat(1, 'concrete'), gq.pat(1, 'schematic')
            first = rng.choice([['inst', ['p1'], [[0, c1]]], ['inst', ['p1'], [[1, c2], [0, c1]]], ['inst', ['p2'], [[2, c1]]],
                                ['inst', ['p1'], []], ['inst', ['p3'], [[0, c2]]], ['gen', ['inst', ['p1'], [[0, c1]]], 3]])
            mod['proofs'] = [first] + mod['proofs']
            mod['static_inst_first'] = True
        if len(mod['proofs']) >= 2 and rng.random() < 0.2:
            # proofs listed in a different order than the claims (the toolkit must refuse, or the checker must accept)
            n_ = len(mod['proofs'])
            perm = list(range(n_))
            rng.shuffle(perm)
            if perm == sorted(perm):
                perm = perm[1:] + perm[:1]
            mod['claims_perm'] = perm
        if illformed:
            x = rng.randrange(3)
            kind = rng.choice(['mu', 'redundant-e', 'redundant-s', 'holes', 'capture', 'constraints', 'claims', 'fresh-drop'])
            mod['ill'] = kind
            if kind == 'mu':
                ill = ['mu', x, rng.choice([['imp', ['sv', x], botp], ['imp', ['imp', ['sv', x], ['sv', x]], ['sv', x]],
                                            ['app', ['sym', 's0'], ['imp', ['sv', x], ['ev', 0]]]])]
                mod['proofs'] = mod['proofs'] + [['dyn', ['p1'], [[rng.randrange(2), ill]]]]
            elif kind == 'redundant-e':
                ill = rng.choice([['es', mv(0), x, ['ev', x]], ['es', mv(1, ef=[x]), x, ['sym', 's1']]])
                mod['proofs'] = mod['proofs'] + [['dyn', ['p2'], [[rng.randrange(3), ill]]]]
            elif kind == 'redundant-s':
                ill = rng.choice([['ss', mv(0), x, ['sv', x]], ['ss', mv(1, sf=[x]), x, ['sym', 's1']]])
                mod['proofs'] = mod['proofs'] + [['dyn', ['p1'], [[rng.randrange(2), ill]]]]
            elif kind == 'holes':
                mod['proofs'] = mod['proofs'] + [['dyn', ['p1'], [[0, mv(2, ef=[x], holes=[x])]]]]
            elif kind == 'capture':
                mod['proofs'] = mod['proofs'] + [['dyn', ['q'], [[0, ['ex', 1, rng.choice([['ev', 0], ['app', ['ev', 0], ['sym', 's2']]])]]]]]
            elif kind == 'constraints':
                ax = rng.choice([mv(0, ef=[x]), ['imp', mv(0, sf=[x]), mv(1)], mv(0, pos=[x]), mv(0, neg=[x])])
                plug = {'ef': ['ev', x], 'sf': ['sv', x]}
                if ax[0] == 'mv' and ax[2]:
                    pl = ['ev', x]
                elif ax[0] == 'imp':
                    pl = ['sv', x]
                elif ax[0] == 'mv' and ax[4]:
                    pl = ['imp', ['sv', x], botp]
                else:
                    pl = ['sv', x]
                mod['axs'] = mod['axs'] + [ax]
                mod['proofs'] = mod['proofs'] + [['dyn', ['ax', ax], [[0, pl]]]]
            elif kind == 'fresh-drop':
                # generator: MetaVar.apply_esubst drops the substitution when the variable is declared fresh;
                # checker: keeps it (and rejects it as redundant already at construction)
                ax = ['imp', ['es', mv(0), x, ['sym', 's0']], mv(1)]
                mod['axs'] = mod['axs'] + [ax]
                mod['proofs'] = mod['proofs'] + [['dyn', ['ax', ax], [[0, mv(3, ef=[x])]]]]
            else:
                mod['claims_extra'] = [['imp', ['sym', 'sX'], ['sym', 'sX']]]
        mods.append(mod)
    return mods


# ------------------------------------------------------------------------------------------------
# the optimising pipeline as an interpreter stack: CountingInterpreter -> finalize() -> MemoizingInterpreter(X)
# ------------------------------------------------------------------------------------------------

def pressure_modules(seedstr, k):
    """modules with many axioms and repeated sub-patterns: the memory of the optimising run gets close to the 256 slots
    of the binary format (finalize() must budget its suggestions by the slots the axioms already occupy)"""
    rng = random.Random(seedstr)
    mods = []
    for j in range(k):
        n = 130 if j == 0 else rng.randrange(90, 150)
        shape = 0 if j == 0 else rng.randrange(3)
        axs = []
        for i in range(n):
            if shape == 0:
                axs.append(['app', ['sym', 's0'], ['ev', i]])
            elif shape == 1:
                axs.append(['imp', ['ev', i], ['sym', 's' + str(i % 3)]])
            else:
                axs.append(['imp', ['app', ['sym', 's1'], ['ev', i]], ['app', ['sym', 's1'], ['ev', (i + 1) % n]]])
        picks = [n - 1] if j == 0 else sorted({n - 1, rng.randrange(n), rng.randrange(n // 2, n)})
        proofs = [['ax', axs[i]] for i in picks]
        proofs.append(['dyn', ['p1'], [[0, axs[rng.randrange(n)]], [1, axs[n - 2]]]])
        if shape == 2 and j:
            i = rng.randrange(n - 1)
            proofs.append(['lib', 'imp_transitivity', [{'t': ['ax', axs[i]]}, {'t': ['ax', axs[i + 1]]}]])
        mods.append({'axs': axs, 'proofs': proofs, 'claims': None, 'pressure': n})
    return mods


def symbol_heavy_modules(seedstr, k):
    """theories with ~150 distinct symbol names each (well within the 256 of the format on their own, disjoint names
    between the theories): nothing may carry over from one serialiser instance to the next"""
    rng = random.Random(seedstr)
    mods = []
    for j in range(k):
        tag = 'th%d_%d_' % (j, rng.randrange(1000))
        nsym = rng.randrange(140, 170)
        names = [tag + str(i) for i in range(nsym)]
        axs = []
        for a in range(0, nsym, 10):
            chunk = names[a:a + 10]
            p = ['sym', chunk[0]]
            for nm in chunk[1:]:
                p = ['app', p, ['sym', nm]] if rng.random() < 0.7 else ['imp', ['sym', nm], p]
            axs.append(p)
        proofs = [['ax', axs[-1]], ['dyn', ['p1'], [[0, axs[0]], [1, ['sym', names[-1]]]]]]
        mods.append({'axs': axs, 'proofs': proofs, 'claims': None, 'symbols': nsym})
    return mods


def run_pipeline(mod):
    """execute_full of one module under the plain interpreters and under MemoizingInterpreter(X, S) where S is what the
    REAL CountingInterpreter.finalize() suggests after a real counting pass"""
    install_reifier()
    sm = SymMap()
    res = {'built': False}
    try:
        m, thunks, axioms, claims = build_module(mod)
    except Exception as e:  # noqa: BLE001
        res['build_exc'] = type(e).__name__
        return res
    res['built'] = True
    res['notation'] = any(term_notation(th._pt) for th in thunks) or any(has_notation(p) for p in axioms + claims)
    res['n_axioms'] = len(gamma_axioms(m))
    cl = lambda: [Claim(c) for c in m._claims]  # noqa: E731

    def attempt(make):
        outs = None
        try:
            it, outs = make()
            m.execute_full(it)
            return {'ok': True}, it, outs
        except Exception as e:  # noqa: BLE001
            return {'ok': False, 'exc': type(e).__name__, 'msg': str(e)[:120]}, None, outs

    def ser():
        o = [io.BytesIO(), io.BytesIO(), io.BytesIO()]
        for x in o:
            x.close = lambda: None
        return SerializingInterpreter(ExecutionPhase.Gamma, o[0], cl(), o[1], o[2]), o

    def pre():
        o = [io.StringIO(), io.StringIO(), io.StringIO()]
        for x in o:
            x.close = lambda: None
        return PrettyPrintingInterpreter(ExecutionPhase.Gamma, o[0], cl(), o[1], o[2]), o

    runs = {}
    runs['basic'], _, _ = attempt(lambda: (BasicInterpreter(ExecutionPhase.Gamma), None))
    runs['stateful'], _, _ = attempt(lambda: (StatefulInterpreter(ExecutionPhase.Gamma, cl()), None))
    runs['counting'], analyzer, _ = attempt(lambda: (CountingInterpreter(ExecutionPhase.Gamma, cl()), None))
    r, _, o = attempt(ser)
    if r['ok']:
        r['bytes'] = [x.getvalue().hex() or '-' for x in o]
    runs['serializing'] = r
    runs['pretty'], _, _ = attempt(pre)
    res['runs'] = runs
    if analyzer is None:
        return res
    res['mem_at_finalize'] = len(analyzer.memory)
    try:
        S = analyzer.finalize()
    except Exception as e:  # noqa: BLE001
        res['finalize_exc'] = type(e).__name__
        return res
    res['S_size'] = len(S)
    Sx = [p for p in S if not has_notation(p)]
    res['S'] = toks([len(Sx)] + [x for p in sorted(Sx, key=repr) for x in encx(p, sm)])
    runs['finalize-memo/stateful'], _, _ = attempt(lambda: (MemoizingInterpreter(StatefulInterpreter(ExecutionPhase.Gamma, cl()), set(S)), None))

    def mser():
        it, o = ser()
        return MemoizingInterpreter(it, set(S)), o

    def mpre():
        it, o = pre()
        return MemoizingInterpreter(it, set(S)), o

    r, _, o = attempt(mser)
    if r['ok']:
        r['bytes'] = [x.getvalue().hex() or '-' for x in o]
    runs['finalize-memo/serializing'] = r
    runs['finalize-memo/pretty'], _, _ = attempt(mpre)
    runs['instopt/finalize-memo/serializing'], _, _ = attempt(lambda: (lambda t: (InstantiationOptimizer(t[0]), t[1]))(mser()))
    if not res['notation']:
        res['model'] = {
            'axs': toks([len(axioms)] + [x for a in axioms for x in enc_pat(expand(a), sm)]),
            'claims': toks([len(claims)] + [x for a in claims for x in encx(a, sm)]),
            'proofs': toks([len(thunks)] + [x for th in thunks for x in enc_term(th._pt, sm)]),
        }
    return res


def gamma_axioms(m):
    out = []
    for sub in m._submodules:
        out += gamma_axioms(sub)
    return out + list(m._axioms)


def shipped():
    """the shipped modules through the real ProofExp.serialize, plus their reified (expanded) model encoding"""
    install_reifier()
    from proof_generation.proofs.small_theory import SmallTheory
    from proof_generation.proofs.substitution import Substitution
    from proof_generation.tautology import Tautology
    out = {}
    for name, cls in (('propositional', Propositional), ('small_theory', SmallTheory), ('substitution', Substitution),
                      ('tautology', Tautology)):
        sm = SymMap()
        m = cls()
        out[name] = {'plain': serialize_real(m, False)}
        r = serialize_real(cls(), True)
        S = r.pop('S', [])
        r['S'] = toks([len(S)] + [x for p in sorted(S, key=repr) for x in encx(p, sm)])
        r['S_notation'] = any(has_notation(p) for p in S)
        out[name]['opt'] = r
        axs = gamma_axioms(m)
        out[name]['model'] = {
            'axs': toks([len(axs)] + [x for a in axs for x in encx(a, sm)]),
            'claims': toks([len(m._claims)] + [x for a in m._claims for x in encx(a, sm)]),
            'proofs': toks([len(m._proof_expressions)] + [x for th in m._proof_expressions for x in enc_term(th._pt, sm)]),
        }
        # the notation-free twin, through the same real entry point
        host = Host([expand(a) for a in axs])
        for c in m._claims:
            host.m._claims.append(expand(c))
        for th in m._proof_expressions:
            host.m._proof_expressions.append(rebuild_expanded(host, th._pt))
        out[name]['twin'] = {'plain': serialize_real(host.m, False)}
        r = serialize_real(host.m, True)
        S = [p for p in r.pop('S', []) if not has_notation(p)]
        r['S'] = toks([len(S)] + [x for p in sorted(S, key=repr) for x in encx(p, sm)])
        out[name]['twin']['opt'] = r
    return out


def main():
    for line in sys.stdin:
        line = line.strip()
        if not line:
            continue
        req = json.loads(line)
        cmd = req['cmd']
        if cmd == 'sig':
            ans = lib_signatures()
        elif cmd == 'thunk':
            ans = run_case(req['case'])
        elif cmd == 'gen_thunks':
            ans = []
            for c in gen_thunk_cases(req['seed'], req['n']):
                try:
                    with time_limit(float(req.get('budget', 6.0))):
                        r = run_case(c)
                except CaseTimeout:
                    r = {'built': False, 'timeout': True}
                r['case'] = c
                ans.append(r)
        elif cmd == 'module':
            ans = run_module(req['mod'])
        elif cmd == 'gen_modules':
            ans = []
            for mspec in gen_modules(req['seed'], req['n'], bool(req.get('ill'))):
                try:
                    with time_limit(float(req.get('budget', 12.0))):
                        r = run_module(mspec)
                except CaseTimeout:
                    r = {'built': False, 'timeout': True}
                r['mod'] = mspec
                ans.append(r)
        elif cmd == 'pressure_modules':
            ans = []
            for mspec in pressure_modules(req['seed'], req['n']):
                r = run_module(mspec)
                r['mod'] = {'pressure': mspec['pressure'], 'proofs': mspec['proofs'], 'axs_head': mspec['axs'][:3],
                            'regenerate': {'cmd': 'pressure_modules', 'seed': req['seed'], 'n': req['n']}}
                ans.append(r)
        elif cmd == 'history':
            # several symbol-heavy modules through FRESH interpreter stacks within this ONE process
            ans = []
            for mspec in symbol_heavy_modules(req['seed'], req['n']):
                r = run_pipeline(mspec)
                r['mod'] = mspec
                ans.append(r)
        elif cmd == 'pipeline':
            ans = []
            mods = pressure_modules(req['seed'], req['n']) if 'seed' in req else [req['mod']]
            for mspec in mods:
                r = run_pipeline(mspec)
                r['mod'] = mspec if len(json.dumps(mspec)) < 4000 else {'pressure': mspec.get('pressure'), 'proofs': mspec['proofs'], 'axs_head': mspec['axs'][:3], 'regenerate': {'seed': req.get('seed'), 'n': req.get('n')}}
                ans.append(r)
        elif cmd == 'shipped':
            ans = shipped()
        else:
            ans = {'error': 'unknown cmd'}
        sys.stdout.write(json.dumps(ans) + '\n')
        sys.stdout.flush()


if __name__ == '__main__':
    main()

"""Implementation-side runner for C14 / C04 / C03 (real pi2 generator code).

Executed with PYTHONPATH=<repo>/generation/src under /venv.  Same request grammar as
ocaml/interp_driver.ml, plus:
  * pattern tag 10:  10 body n (key value)*n   = Instantiate(body, frozendict)  (notation)
  * SER/TRACE answers additionally carry X[<calls with every pattern FULLY EXPANDED>], which the
    harness feeds to the model (the models work over expanded patterns).
  * RT <G|C|P> <claims|-> call*    round-trip oracle on the implementation alone
  * MOD ...                         module-level requests (C03), see mod_request()
Symbols: the model's name n is the Python name str(n).
"""
from __future__ import annotations

import sys
import traceback

from frozendict import frozendict

from proof_generation.claim import Claim
from proof_generation.deserialize import deserialize_instructions
from proof_generation.interpreter import ExecutionPhase
from proof_generation.pattern import (App, ESubst, EVar, Exists, Implies, Instantiate, MetaVar, Mu, Pattern, SSubst,
                                      SVar, Symbol)
from proof_generation.proved import Proved
from proof_generation.serializing_interpreter import SerializingInterpreter
from proof_generation.stateful_interpreter import StatefulInterpreter


class Bad(Exception):
    pass


class IllTyped(Exception):
    pass


# ------------------------------------------------------------------------------------------------
# codec
# ------------------------------------------------------------------------------------------------

def dec_pat(ints):
    pos = 0

    def byte():
        nonlocal pos
        if pos >= len(ints):
            raise Bad('short pattern')
        x = ints[pos]
        pos += 1
        return x

    def go():
        t = byte()
        if t == 0:
            return EVar(byte())
        if t == 1:
            return SVar(byte())
        if t == 2:
            return Symbol(str(byte()))
        if t == 3:
            l = go()
            return Implies(l, go())
        if t == 4:
            l = go()
            return App(l, go())
        if t == 5:
            x = byte()
            return Exists(x, go())
        if t == 6:
            x = byte()
            return Mu(x, go())
        if t == 7:
            i = byte()
            ls = []
            for k in range(5):
                n = byte()
                ls.append([byte() for _ in range(n)])
            return MetaVar(i, tuple(EVar(v) for v in ls[0]), tuple(SVar(v) for v in ls[1]),
                           tuple(SVar(v) for v in ls[2]), tuple(SVar(v) for v in ls[3]), tuple(EVar(v) for v in ls[4]))
        if t == 8:
            p = go()
            x = byte()
            return ESubst(p, EVar(x), go())
        if t == 9:
            p = go()
            x = byte()
            return SSubst(p, SVar(x), go())
        if t == 10:
            body = go()
            n = byte()
            d = {}
            for _ in range(n):
                k = byte()
                d[k] = go()
            return Instantiate(body, frozendict(d))
        raise Bad('tag')

    p = go()
    if pos != len(ints):
        raise Bad('trailing')
    return p


def pat_of(s):
    return dec_pat([int(x) for x in s.split('.')])


def expand(p):
    """full notation expansion: Instantiate nodes are expanded bottom-up with the real
    Pattern.instantiate of the plain constructors (ill-typed terms raise IllTyped)"""
    if isinstance(p, Instantiate):
        body = expand(p.pattern)
        inst = {k: expand(v) for k, v in p.inst.items()}
        return expand(body.instantiate(inst))
    if isinstance(p, (EVar, SVar)):
        if not isinstance(p.name, int):
            raise IllTyped('var id')
        return p
    if isinstance(p, Symbol):
        if not isinstance(p.name, str):
            raise IllTyped('symbol name')
        return p
    if isinstance(p, Implies):
        return Implies(expand(p.left), expand(p.right))
    if isinstance(p, App):
        return App(expand(p.left), expand(p.right))
    if isinstance(p, Exists):
        return Exists(p.var, expand(p.subpattern))
    if isinstance(p, Mu):
        return Mu(p.var, expand(p.subpattern))
    if isinstance(p, MetaVar):
        for tup, cls in ((p.e_fresh, EVar), (p.s_fresh, SVar), (p.positive, SVar), (p.negative, SVar), (p.app_ctx_holes, EVar)):
            for v in tup:
                if not isinstance(v, cls):
                    raise IllTyped('metavar constraint of type ' + type(v).__name__)
        return p
    if isinstance(p, ESubst):
        if not isinstance(p.var, EVar):
            raise IllTyped('esubst var')
        return ESubst(expand(p.pattern), p.var, expand(p.plug))
    if isinstance(p, SSubst):
        if not isinstance(p.var, SVar):
            raise IllTyped('ssubst var')
        return SSubst(expand(p.pattern), p.var, expand(p.plug))
    raise IllTyped('not a pattern: ' + type(p).__name__)


def enc(p):
    """encode an EXPANDED pattern"""
    if isinstance(p, EVar):
        return [0, p.name]
    if isinstance(p, SVar):
        return [1, p.name]
    if isinstance(p, Symbol):
        return [2, int(p.name)]
    if isinstance(p, Implies):
        return [3] + enc(p.left) + enc(p.right)
    if isinstance(p, App):
        return [4] + enc(p.left) + enc(p.right)
    if isinstance(p, Exists):
        return [5, p.var] + enc(p.subpattern)
    if isinstance(p, Mu):
        return [6, p.var] + enc(p.subpattern)
    if isinstance(p, MetaVar):
        out = [7, p.name]
        for tup in (p.e_fresh, p.s_fresh, p.positive, p.negative, p.app_ctx_holes):
            out.append(len(tup))
            out += [v.name for v in tup]
        return out
    if isinstance(p, ESubst):
        return [8] + enc(p.pattern) + [p.var.name] + enc(p.plug)
    if isinstance(p, SSubst):
        return [9] + enc(p.pattern) + [p.var.name] + enc(p.plug)
    raise IllTyped('enc ' + type(p).__name__)


def show(p):
    return '.'.join(str(x) for x in enc(expand(p)))


def show_term(t):
    if isinstance(t, Proved):
        return 'T' + show(t.conclusion)
    if isinstance(t, Pattern):
        return 'P' + show(t)
    raise IllTyped('term ' + type(t).__name__)


def term_of(s):
    if s[0] == 'P':
        return pat_of(s[1:])
    if s[0] == 'T':
        return Proved(pat_of(s[1:]))
    raise Bad('term')


def nlist(s):
    return [] if s in ('-', '') else [int(x) for x in s.split(',')]


PH = {'G': ExecutionPhase.Gamma, 'C': ExecutionPhase.Claim, 'P': ExecutionPhase.Proof}
PHN = {v: k for k, v in PH.items()}


def claims_of(s):
    return [] if s == '-' else [pat_of(x) for x in s.split(';')]


class Sink:
    """byte sink that survives close() (IOInterpreter closes the sink at every phase switch)"""

    def __init__(self):
        self.data = bytearray()

    def write(self, b):
        self.data += b

    def close(self):
        pass


def parse_call(s):
    """-> (method name, args tuple, expanded text)"""
    f = s.split(':')
    n = f[0]
    I = int
    if n == 'ev':
        return ('evar', (I(f[1]),), s)
    if n == 'sv':
        return ('svar', (I(f[1]),), s)
    if n == 'sy':
        return ('symbol', (str(I(f[1])),), s)
    if n == 'mv':
        ls = [nlist(x) for x in f[2:7]]
        args = (I(f[1]), tuple(EVar(v) for v in ls[0]), tuple(SVar(v) for v in ls[1]), tuple(SVar(v) for v in ls[2]),
                tuple(SVar(v) for v in ls[3]), tuple(EVar(v) for v in ls[4]))
        return ('metavar', args, s)
    if n in ('im', 'ap'):
        l, r = pat_of(f[1]), pat_of(f[2])
        return ('implies' if n == 'im' else 'app', (l, r), f'{n}:{show(l)}:{show(r)}')
    if n in ('ex', 'mu'):
        p = pat_of(f[2])
        return ('exists' if n == 'ex' else 'mu', (I(f[1]), p), f'{n}:{f[1]}:{show(p)}')
    if n in ('es', 'ss'):
        p, q = pat_of(f[2]), pat_of(f[3])
        return ('esubst' if n == 'es' else 'ssubst', (I(f[1]), p, q), f'{n}:{f[1]}:{show(p)}:{show(q)}')
    if n in ('p1', 'p2', 'p3'):
        return ('prop' + n[1], (), s)
    if n == 'qu':
        return ('exists_quantifier', (), s)
    if n == 'mp':
        l, r = pat_of(f[1]), pat_of(f[2])
        return ('modus_ponens', (Proved(l), Proved(r)), f'mp:{show(l)}:{show(r)}')
    if n == 'ge':
        p = pat_of(f[1])
        return ('exists_generalization', (Proved(p), EVar(I(f[2]))), f'ge:{show(p)}:{f[2]}')
    if n in ('in', 'ip'):
        p = pat_of(f[1])
        d = {}
        kv = f[2:]
        if len(kv) % 2:
            raise Bad('delta')
        txt = []
        for i in range(0, len(kv), 2):
            k = I(kv[i])
            if k in d:
                raise Bad('dup key')
            d[k] = pat_of(kv[i + 1])
            txt += [str(k), show(d[k])]
        if n == 'in':
            return ('instantiate', (Proved(p), d), ':'.join(['in', show(p)] + txt))
        return ('instantiate_pattern', (p, d), ':'.join(['ip', show(p)] + txt))
    if n in ('po', 'sa', 'lo'):
        t = term_of(f[1])
        m = {'po': 'pop', 'sa': 'save', 'lo': 'load'}[n]
        args = (t,) if n == 'po' else ('id', t)
        return (m, args, f'{n}:{show_term(t)}')
    if n in ('pp', 'pa', 'pc'):
        p = pat_of(f[1])
        if n == 'pp':
            return ('publish_proof', (Proved(p),), f'pp:{show(p)}')
        return ('publish_axiom' if n == 'pa' else 'publish_claim', (p,), f'{n}:{show(p)}')
    if n == 'pt':
        return ('__pattern__', (pat_of(f[1]),), s)
    if n == 'ic':
        return ('into_claim_phase', (), s)
    if n == 'if':
        return ('into_proof_phase', (), s)
    raise Bad('call ' + n)


def show_tracker(it):
    st = ','.join(show_term(t) for t in reversed(it.stack))
    mem = ','.join(show_term(t) for t in it.memory)
    cl = ','.join(show(c.pattern) for c in it.claims)
    return f'{PHN[it.phase]} S[{st}] M[{mem}] C[{cl}]'


def hexs(b):
    return bytes(b).hex() if b else '-'


def new_serializer(ph, claims):
    sinks = (Sink(), Sink(), Sink())
    first = {'G': 0, 'C': 1, 'P': 2}[ph]
    it = SerializingInterpreter(PH[ph], out=sinks[first], claims=[Claim(c) for c in claims],
                                claim_out=sinks[1], proof_out=sinks[2])
    return it, sinks


def kind_of(e):
    return type(e).__name__


METHOD_TAG = {'evar': 'ev', 'svar': 'sv', 'symbol': 'sy', 'metavar': 'mv', 'implies': 'im', 'app': 'ap', 'exists': 'ex',
              'mu': 'mu', 'esubst': 'es', 'ssubst': 'ss', 'prop1': 'p1', 'prop2': 'p2', 'prop3': 'p3',
              'exists_quantifier': 'qu', 'modus_ponens': 'mp', 'exists_generalization': 'ge', 'instantiate': 'in',
              'instantiate_pattern': 'ip', 'pop': 'po', 'save': 'sa', 'load': 'lo', 'publish_proof': 'pp',
              'publish_axiom': 'pa', 'publish_claim': 'pc'}


def render_call(m, args):
    """an Interpreter method call made by the real code -> request text with EXPANDED patterns"""
    t = METHOD_TAG[m]
    if m in ('evar', 'svar'):
        return f'{t}:{int(args[0])}'
    if m == 'symbol':
        return f'{t}:{int(args[0])}'
    if m == 'metavar':
        a = list(args) + [()] * (6 - len(args))
        return t + ':' + str(a[0]) + ':' + ':'.join((','.join(str(v.name) for v in l) or '-') for l in a[1:6])
    if m in ('implies', 'app'):
        return f'{t}:{show(args[0])}:{show(args[1])}'
    if m in ('exists', 'mu'):
        return f'{t}:{args[0]}:{show(args[1])}'
    if m in ('esubst', 'ssubst'):
        return f'{t}:{args[0]}:{show(args[1])}:{show(args[2])}'
    if m in ('prop1', 'prop2', 'prop3', 'exists_quantifier'):
        return t
    if m == 'modus_ponens':
        return f'{t}:{show(args[0].conclusion)}:{show(args[1].conclusion)}'
    if m == 'exists_generalization':
        return f'{t}:{show(args[0].conclusion)}:{args[1].name}'
    if m in ('instantiate', 'instantiate_pattern'):
        p = args[0].conclusion if m == 'instantiate' else args[0]
        return ':'.join([t, show(p)] + [x for k, v in args[1].items() for x in (str(k), show(v))])
    if m == 'pop':
        return f'{t}:{show_term(args[0])}'
    if m in ('save', 'load'):
        return f'{t}:{show_term(args[1])}'
    if m == 'publish_proof':
        return f'{t}:{show(args[0].conclusion)}'
    return f'{t}:{show(args[0])}'


def ser(ph, claims_s, call_strs, trace):
    """run the calls on a real SerializingInterpreter.  `pt:<pattern>` = interpreter.pattern(p): the Interpreter
    methods that the real traversal calls are recorded one by one (text, state after each), so that the model
    is fed exactly the calls the real code made, in its order, with its arguments.
    The symbol table is OBSERVED (the id byte written by each symbol() call), not read from a private attribute."""
    claims = claims_of(claims_s)
    calls = [parse_call(c) for c in call_strs]
    it, sinks = new_serializer(ph, claims)
    fail = None
    kind = ''
    recs = []          # one record per executed Interpreter call
    xcalls = []        # their texts (expanded); a failing call is the last entry
    observed = {}      # symbol name -> ids written for it, in order
    state = {'snap': None, 'before': 0}

    def total():
        return sum(len(s.data) for s in sinks)

    def snapshot():
        state['snap'] = (list(it.stack), list(it.memory), list(it.claims), it.phase,
                         dict(getattr(it, '_symbol_identifiers', {})), it.out)
        state['before'] = total()

    def done(m, args):
        if m == 'symbol' and it.out.data[-2:-1] == bytes([4]):
            observed.setdefault(args[0], []).append(it.out.data[-1])
        if trace:
            recs.append(f' | {show_tracker(it)} n={total() - state["before"]}')
        else:
            recs.append('')

    def wrap(m):
        orig = getattr(it, m)

        def f(*args):
            xcalls.append(render_call(m, args))
            snapshot()
            r = orig(*args)
            done(m, args)
            return r
        return f

    for k, (m, args, text) in enumerate(calls):
        try:
            if m == '__pattern__':
                for name in METHOD_TAG:
                    setattr(it, name, wrap(name))
                n_before = len(recs)
                try:
                    it.pattern(*args)
                finally:
                    for name in METHOD_TAG:
                        try:
                            delattr(it, name)
                        except AttributeError:
                            pass
                if len(xcalls) != len(recs):
                    raise Bad('pattern(): bookkeeping')
            else:
                xcalls.append(text)
                snapshot()
                getattr(it, m)(*args)
                done(m, args)
        except Exception as e:  # noqa: BLE001  every exception is a reject
            kind = kind_of(e)
            if len(xcalls) == len(recs):
                # raised by Interpreter.pattern itself, between two calls: no model call corresponds to it
                xcalls.append('??')
                snapshot()
            fail = len(recs)
            # the run is dead; report the state BEFORE the failing call (as the model does)
            sn = state['snap']
            it.stack, it.memory, it.claims, it.phase, it.out = sn[0], sn[1], sn[2], sn[3], sn[5]
            if hasattr(it, '_symbol_identifiers'):
                it._symbol_identifiers = sn[4]
            extra = total() - state['before']
            if extra:
                del it.out.data[len(it.out.data) - extra:]
            # calls that were never reached still belong to the request (the model stops at the same place)
            for m2, a2, t2 in calls[k + 1:]:
                if m2 != '__pattern__':
                    xcalls.append(t2)
            break
    head = 'OK' if fail is None else f'REJECT {fail}'
    # the table as observed: every name one id, every id one name, ids 0..n-1 in first-occurrence order
    first = {}
    broken = None
    for name, ids in observed.items():
        if len(set(ids)) != 1:
            broken = f'{name} was written as {sorted(set(ids))}'
        first[name] = ids[0]
    order = sorted(first.items(), key=lambda kv: kv[1])
    if [v for _, v in order] != list(range(len(order))) and broken is None:
        broken = 'ids are not 0..n-1 in first-occurrence order: ' + repr(order)[:120]
    tbl = ','.join(name for name, _ in order) or '-'
    if broken:
        tbl = 'BROKEN:' + broken.replace(' ', '_').replace('[', '(').replace(']', ')')
    x = ' '.join(xcalls)
    out = (f'{head} tbl[{tbl}] G[{hexs(sinks[0].data)}] C[{hexs(sinks[1].data)}] P[{hexs(sinks[2].data)}] '
           f'{show_tracker(it)}{"".join(recs) if trace else ""}')
    return out, x, kind


class Checked(StatefulInterpreter):
    """StatefulInterpreter that refuses ill-typed arguments (a Proved where a Pattern is expected
    and vice versa).  The models are typed; Python is not: `deserialize` happily builds
    Implies(Proved, Proved) from a malformed stream.  Treating that as a reject is the documented
    abstraction of the tie (notes/C14.md)."""


def _wrap(name, kinds):
    base = getattr(StatefulInterpreter, name)

    def f(self, *args):
        for a, k in zip(args, kinds):
            if k == 'p' and not isinstance(a, Pattern):
                raise IllTyped(name)
            if k == 't' and not isinstance(a, Proved):
                raise IllTyped(name)
        return base(self, *args)

    setattr(Checked, name, f)


for _n, _k in (('implies', 'pp'), ('app', 'pp'), ('exists', '-p'), ('mu', '-p'), ('esubst', '-pp'), ('ssubst', '-pp'),
               ('modus_ponens', 'tt'), ('exists_generalization', 't-'), ('instantiate', 't-'),
               ('instantiate_pattern', 'p-'), ('publish_proof', 't'), ('publish_axiom', 'p'), ('publish_claim', 'p')):
    _wrap(_n, _k)


def des_into(it, data):
    deserialize_instructions(bytes(data), it)


def des(ph, claims_s, hexb):
    it = Checked(PH[ph], claims=[Claim(c) for c in claims_of(claims_s)])
    data = b'' if hexb == '-' else bytes.fromhex(hexb)
    try:
        des_into(it, data)
        return 'OK ' + show_tracker(it), ''
    except Exception as e:  # noqa: BLE001
        return 'REJECT', kind_of(e)


def des3(claims_s, hg, hc, hp, upto):
    it = Checked(ExecutionPhase.Gamma, claims=[Claim(c) for c in claims_of(claims_s)])
    b = [b'' if h == '-' else bytes.fromhex(h) for h in (hg, hc, hp)]
    cur = 'G'
    try:
        des_into(it, b[0])
        if upto != 'G':
            it.into_claim_phase()
            cur = 'C'
            des_into(it, b[1])
            if upto != 'C':
                it.into_proof_phase()
                cur = 'P'
                des_into(it, b[2])
        return 'OK ' + show_tracker(it), ''
    except Exception as e:  # noqa: BLE001
        return 'REJECT ' + cur, kind_of(e)


def rename_pat(p, f):
    """rename symbols of an EXPANDED pattern"""
    if isinstance(p, Symbol):
        return Symbol(str(f(p.name)))
    if isinstance(p, Implies):
        return Implies(rename_pat(p.left, f), rename_pat(p.right, f))
    if isinstance(p, App):
        return App(rename_pat(p.left, f), rename_pat(p.right, f))
    if isinstance(p, Exists):
        return Exists(p.var, rename_pat(p.subpattern, f))
    if isinstance(p, Mu):
        return Mu(p.var, rename_pat(p.subpattern, f))
    if isinstance(p, ESubst):
        return ESubst(rename_pat(p.pattern, f), p.var, rename_pat(p.plug, f))
    if isinstance(p, SSubst):
        return SSubst(rename_pat(p.pattern, f), p.var, rename_pat(p.plug, f))
    return p


def rename_term(t, f):
    if isinstance(t, Proved):
        return Proved(rename_pat(expand(t.conclusion), f))
    return rename_pat(expand(t), f)


def rt(ph, claims_s, call_strs):
    """ROUND-TRIP ORACLE (implementation only, no model): serialise a one-phase call sequence
    starting from a fresh interpreter, feed the bytes through deserialize_instructions into a fresh
    StatefulInterpreter (claims renamed by the final symbol table) and compare the final
    stack / memory / claims up to symbol renumbering."""
    claims = claims_of(claims_s)
    calls = [parse_call(c) for c in call_strs]
    it, sinks = new_serializer(ph, claims)
    tbl = {}
    for m, args, _ in calls:
        if m in ('into_claim_phase', 'into_proof_phase'):
            return 'SKIP switch'
        try:
            if m == '__pattern__':
                it.pattern(*args)
            else:
                getattr(it, m)(*args)
                if m == 'symbol' and it.out.data[-2:-1] == bytes([4]):
                    tbl.setdefault(args[0], it.out.data[-1])
        except Exception as e:  # noqa: BLE001
            return 'SKIP rejected ' + kind_of(e)
    data = bytes(sinks[{'G': 0, 'C': 1, 'P': 2}[ph]].data)
    if hasattr(it, '_symbol_identifiers'):
        tbl = dict(it._symbol_identifiers)

    def f(name):
        return tbl.get(name, len(tbl))

    want = (f'S[{",".join(show_term(rename_term(t, f)) for t in reversed(it.stack))}] '
            f'M[{",".join(show_term(rename_term(t, f)) for t in it.memory)}] '
            f'C[{",".join(show(rename_pat(expand(c.pattern), f)) for c in it.claims)}]')
    fresh = StatefulInterpreter(PH[ph], claims=[Claim(rename_pat(expand(c), f)) for c in claims])
    try:
        des_into(fresh, data)
        got = show_tracker(fresh)[2:]
    except Exception as e:  # noqa: BLE001
        return f'FAIL deser-raised {kind_of(e)} bytes={hexs(data)}'
    if got != want:
        return f'FAIL state bytes={hexs(data)} want={want} got={got}'
    return f'PASS bytes={hexs(data)}'


def handle(line):
    f = line.split()
    if f[0] in ('SER', 'TRACE'):
        out, x, kind = ser(f[1], f[2], f[3:], f[0] == 'TRACE')
        return f'{out} X[{x}] K[{kind}]'
    if f[0] == 'DES':
        out, kind = des(f[2], f[3], f[4])
        return f'{out} K[{kind}]'
    if f[0] == 'DES3':
        out, kind = des3(f[2], f[3], f[4], f[5], f[6])
        return f'{out} K[{kind}]'
    if f[0] == 'RT':
        return rt(f[1], f[2], f[3:])
    if f[0] == 'MOD':
        import interp_mod
        return interp_mod.mod_request(f[1:])
    return 'BAD'


def main():
    for line in sys.stdin:
        line = line.strip()
        if not line:
            continue
        try:
            print(handle(line))
        except Bad as e:
            print('BAD ' + str(e))
        except Exception:  # noqa: BLE001
            print('CRASH ' + traceback.format_exc().replace('\n', ' // ')[-600:])
        sys.stdout.flush()


if __name__ == '__main__':
    main()

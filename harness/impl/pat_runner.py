"""Implementation side of the Py checks: executes the requests of ocaml/py_driver.ml against the real
proof_generation.pattern / basic_interpreter (repo on PYTHONPATH).  One response line per request."""
import os
import sys

sys.path.insert(0, os.path.dirname(os.path.dirname(os.path.abspath(__file__))))
sys.setrecursionlimit(100000)

from frozendict import frozendict  # noqa: E402

import pycodec as PC  # noqa: E402
from proof_generation import pattern as P  # noqa: E402
from proof_generation.basic_interpreter import BasicInterpreter  # noqa: E402
from proof_generation.interpreter import ExecutionPhase  # noqa: E402
from proof_generation.proved import Proved  # noqa: E402

SYMS = {}      # id -> name
SYMIDS = {}    # name -> id
NOTS = {}      # id -> Notation


def symname(i):
    return SYMS.get(i, f's{i}')


def symid(name):
    if name in SYMIDS:
        return SYMIDS[name]
    if name.startswith('s') and name[1:].isdigit():
        return int(name[1:])
    raise KeyError(f'unknown symbol {name!r}')


def build(t):
    k = t[0]
    if k == 'e':
        return P.EVar(t[1])
    if k == 's':
        return P.SVar(t[1])
    if k == 'y':
        return P.Symbol(symname(t[1]))
    if k == 'i':
        return P.Implies(build(t[1]), build(t[2]))
    if k == 'a':
        return P.App(build(t[1]), build(t[2]))
    if k == 'x':
        return P.Exists(t[1], build(t[2]))
    if k == 'm':
        return P.Mu(t[1], build(t[2]))
    if k == 'v':
        return P.MetaVar(t[1], tuple(P.EVar(x) for x in t[2]), tuple(P.SVar(x) for x in t[3]),
                         tuple(P.SVar(x) for x in t[4]), tuple(P.SVar(x) for x in t[5]),
                         tuple(P.EVar(x) for x in t[6]))
    if k == 'E':
        return P.ESubst(build(t[1]), P.EVar(t[2]), build(t[3]))
    if k == 'S':
        return P.SSubst(build(t[1]), P.SVar(t[2]), build(t[3]))
    if k == 'I':
        # an application of a registered notation uses that notation's definition OBJECT, as Notation.__call__ does
        body = DEFS.get(PC.show(t[1]))
        if body is None:
            body = build(t[1])
        return P.Instantiate(body, frozendict({key: build(v) for key, v in t[2]}))
    raise ValueError(t)


DEFS = {}      # wire form of a registered notation's definition -> the definition object


def register_def(nt):
    try:
        DEFS.setdefault(PC.show(unbuild(nt.definition)), nt.definition)
    except (ValueError, KeyError):
        pass


def unbuild(p):
    if isinstance(p, P.EVar):
        return ('e', p.name)
    if isinstance(p, P.SVar):
        return ('s', p.name)
    if isinstance(p, P.Symbol):
        return ('y', symid(p.name))
    if isinstance(p, P.Implies):
        return ('i', unbuild(p.left), unbuild(p.right))
    if isinstance(p, P.App):
        return ('a', unbuild(p.left), unbuild(p.right))
    if isinstance(p, P.Exists):
        return ('x', p.var, unbuild(p.subpattern))
    if isinstance(p, P.Mu):
        return ('m', p.var, unbuild(p.subpattern))
    if isinstance(p, P.MetaVar):
        return ('v', p.name, tuple(x.name for x in p.e_fresh), tuple(x.name for x in p.s_fresh),
                tuple(x.name for x in p.positive), tuple(x.name for x in p.negative),
                tuple(x.name for x in p.app_ctx_holes))
    if isinstance(p, P.ESubst):
        return ('E', unbuild(p.pattern), p.var.name, unbuild(p.plug))
    if isinstance(p, P.SSubst):
        return ('S', unbuild(p.pattern), p.var.name, unbuild(p.plug))
    if isinstance(p, P.Instantiate):
        return ('I', unbuild(p.pattern), tuple((k, unbuild(v)) for k, v in p.inst.items()))
    raise ValueError(f'not a pattern: {p!r}')


def show(p):
    return PC.show(unbuild(p))


def showdict(d):
    return PC.showd(tuple((k, unbuild(v)) for k, v in d.items()))


def full_expand(p):
    """expansion by the implementation's own simplify(), outermost first, everywhere"""
    while isinstance(p, P.Instantiate):
        p = p.simplify()
    if isinstance(p, (P.Implies, P.App)):
        return type(p)(full_expand(p.left), full_expand(p.right))
    if isinstance(p, (P.Exists, P.Mu)):
        return type(p)(p.var, full_expand(p.subpattern))
    if isinstance(p, (P.ESubst, P.SSubst)):
        return type(p)(full_expand(p.pattern), p.var, full_expand(p.plug))
    return p


def mk_notation(r):
    if r.a[r.i].startswith('#'):
        return NOTS[int(r.next()[1:])]
    ar = r.int()
    d = build(r.term())
    ch = PC.read_chunks(r)
    return P.Notation('n', ar, d, PC.chunks_fmt(ch))


def tup(l):
    return ' '.join([str(len(l))] + [show(x) for x in l])


def run(line):
    r = PC.Reader(line)
    op = r.next()
    if op == 'FUEL':
        return 'OK'
    if op == 'SYM':
        i = r.int()
        name = ''.join(chr(r.int()) for _ in range(r.int()))
        SYMS[i] = name
        SYMIDS[name] = i
        return 'OK'
    if op == 'NOT':
        i = r.int()
        NOTS[i] = mk_notation(r)
        register_def(NOTS[i])
        return 'OK'
    if op == 'NOTREF':       # the real shipped object, located by a Python expression
        i = r.int()
        expr = line.split(None, 2)[2]
        import proof_generation.proofs.definedness as definedness
        import proof_generation.proofs.kore as kore
        import proof_generation.proofs.propositional as propositional
        import proof_generation.proofs.substitution as substitution
        NOTS[i] = eval(expr, {'pattern': P, 'definedness': definedness, 'kore': kore,
                              'propositional': propositional, 'substitution': substitution, 'Symbol': P.Symbol})
        register_def(NOTS[i])
        return 'OK'
    r.next()  # flags (the implementation is what it is)
    if op == 'X':
        return show(full_expand(build(r.term())))
    if op == 'I':
        p = build(r.term())
        d = {k: build(v) for k, v in r.delta()}
        return show(p.instantiate(d))
    if op == 'ES':
        p = build(r.term())
        x = r.int()
        return show(p.apply_esubst(x, build(r.term())))
    if op == 'SS':
        p = build(r.term())
        x = r.int()
        return show(p.apply_ssubst(x, build(r.term())))
    if op == 'SIMP':
        p = build(r.term())
        return show(p.simplify() if isinstance(p, P.Instantiate) else p)
    if op == 'HNF':
        p = build(r.term())
        while isinstance(p, P.Instantiate):
            p = p.simplify()
        return show(p)
    if op == 'EQ':
        a = build(r.term())
        b = build(r.term())
        res = (a == b)
        if (a != b) == res:
            return 'CRASH:ne-inconsistent'
        return '1' if res else '0'
    if op == 'FR':
        p = build(r.term())
        return '1' if p.evar_is_free(r.int()) else '0'
    if op == 'MV':
        return ' '.join(['MV'] + [str(x) for x in sorted(build(r.term()).metavars())])
    if op == 'MS':
        p = build(r.term())
        i = build(r.term())
        d = {k: build(v) for k, v in r.delta()}
        res = P.match_single(p, i, d)
        return 'NONE' if res is None else showdict(res)
    if op == 'ML':
        eqs = []
        for _ in range(r.int()):
            p = build(r.term())
            eqs.append((p, build(r.term())))
        res = P.match(eqs)
        return 'NONE' if res is None else showdict(res)
    if op == 'MSI':
        p = build(r.term())
        i = build(r.term())
        d = {k: build(v) for k, v in r.delta()}
        res = P.match_single(p, i, d)
        if res is None:
            return 'NONE'
        return '1' if p.instantiate(res) == i else '0'
    if op == 'MLI':
        eqs = []
        for _ in range(r.int()):
            p = build(r.term())
            eqs.append((p, build(r.term())))
        res = P.match(eqs)
        if res is None:
            return 'NONE'
        return '1' if all(p.instantiate(res) == i for p, i in eqs) else '0'
    if op == 'RT':
        nt = mk_notation(r)
        args = [build(t) for t in r.tuple()]
        app = nt(*args)
        res = nt.assert_matches(app)
        return ('1' if nt(*res) == app else '0') + ' ' + tup(res)
    if op == 'HIST':
        # a sequence of matches in THIS process, deliberately repeating requests; nothing is cleared in between.
        # Every returned dict is kept and re-read at the end: a later call must not have changed it.
        outs, kept = [], []
        for _ in range(r.int()):
            kind = r.next()
            if kind == 'MS':
                p = build(r.term())
                i = build(r.term())
                d = {k: build(v) for k, v in r.delta()}
                res = P.match_single(p, i, d)
            else:
                eqs = []
                for _j in range(r.int()):
                    p = build(r.term())
                    eqs.append((p, build(r.term())))
                res = P.match(eqs)
            s = 'NONE' if res is None else showdict(res)
            outs.append(s)
            kept.append((res, s))
        if any(res is not None and showdict(res) != s for res, s in kept):
            outs.append('ALIASED')
        return ' | '.join(outs)
    if op == 'NC':
        nt = mk_notation(r)
        args = [build(t) for t in r.tuple()]
        return show(nt(*args))
    if op == 'NM':
        nt = mk_notation(r)
        res = nt.matches(build(r.term()))
        return 'NONE' if res is None else tup(res)
    if op == 'NA':
        nt = mk_notation(r)
        return tup(nt.assert_matches(build(r.term())))
    if op in ('UI', 'UA'):
        cls = P.Implies if op == 'UI' else P.App
        res = cls.unwrap(build(r.term()))
        return 'NONE' if res is None else show(res[0]) + ' ' + show(res[1])
    if op in ('DE', 'DS', 'DY'):
        cls = {'DE': P.EVar, 'DS': P.SVar, 'DY': P.Symbol}[op]
        res = cls.deconstruct(build(r.term()))
        if res is None:
            return 'NONE'
        return str(symid(res)) if op == 'DY' else str(res)
    if op in ('DX', 'DM'):
        cls = P.Exists if op == 'DX' else P.Mu
        res = cls.deconstruct(build(r.term()))
        return 'NONE' if res is None else f'{res[0]} {show(res[1])}'
    if op == 'MP':
        l = build(r.term())
        rr = build(r.term())
        return show(BasicInterpreter(ExecutionPhase.Proof).modus_ponens(Proved(l), Proved(rr)).conclusion)
    if op == 'GEN':
        c = build(r.term())
        x = r.int()
        return show(BasicInterpreter(ExecutionPhase.Proof).exists_generalization(Proved(c), P.EVar(x)).conclusion)
    if op == 'BI':
        c = build(r.term())
        d = {k: build(v) for k, v in r.delta()}
        return show(BasicInterpreter(ExecutionPhase.Proof).instantiate(Proved(c), d).conclusion)
    if op in ('UW', 'UE'):      # cls.unwrap / cls.extract for any class, the base class (11) and Instantiate (10) included
        cls = [P.EVar, P.SVar, P.Symbol, P.Implies, P.App, P.Exists, P.Mu, P.MetaVar, P.ESubst, P.SSubst, P.Instantiate, P.Pattern][r.int()]
        x = build(r.term())
        res = cls.unwrap(x) if op == 'UW' else cls.extract(x)
        return 'NONE' if res is None else tup(res)
    if op in ('DN', 'DNP'):
        import proof_generation.proofs.kore as kore

        def one(p):
            h, args = kore.deconstruct_nary_application(p)
            return 'H ' + show(h) + ' ' + tup(args)
        if op == 'DN':
            return one(build(r.term()))
        a = build(r.term())
        b = build(r.term())
        kore.deconstruct_nary_application.cache_clear()     # the pair alone decides what the cache holds
        return one(a) + ' | ' + one(b)
    if op in ('MPS', 'GENS', 'BIS'):
        from proof_generation.stateful_interpreter import StatefulInterpreter
        it = StatefulInterpreter(ExecutionPhase.Proof)
        if op == 'MPS':
            l = Proved(build(r.term()))
            rr = Proved(build(r.term()))
            it.stack = [l, rr]
            res = it.modus_ponens(l, rr)
        elif op == 'GENS':
            c = Proved(build(r.term()))
            x = r.int()
            it.stack = [c]
            res = it.exists_generalization(c, P.EVar(x))
        else:
            c = Proved(build(r.term()))
            d = {k: build(v) for k, v in r.delta()}
            it.stack = list(d.values()) + [c]
            res = it.instantiate(c, d)
        if it.stack != [res]:
            return 'CRASH:stack'
        return show(res.conclusion)
    if op == 'MPX':
        from proof_generation.proof import ProofExp, ProofThunk
        l = build(r.term())
        rr = build(r.term())
        return show(ProofExp().modus_ponens(ProofThunk(None, l), ProofThunk(None, rr)).conc)
    if op == 'PR':
        simp = r.next() == '1'
        ids = [r.int() for _ in range(r.int())]
        nots = {NOTS[i].definition: NOTS[i] for i in ids}
        p = build(r.term())
        s = p.pretty(P.PrettyOptions(simplify_instantiations=simp, notations=frozendict(nots)))
        return ' '.join(['S'] + [str(ord(c)) for c in s])
    if op == 'PRI':
        simp = r.next() == '1'
        ids = [r.int() for _ in range(r.int())]
        nots = {NOTS[i].definition: NOTS[i] for i in ids}
        p = build(r.term())
        d = {k: build(v) for k, v in r.delta()}
        s = p.instantiate(d).pretty(P.PrettyOptions(simplify_instantiations=simp, notations=frozendict(nots)))
        return ' '.join(['S'] + [str(ord(c)) for c in s])
    if op == 'COV':
        return '?'
    return 'BAD'


def main():
    out = sys.stdout
    for line in sys.stdin:
        line = line.strip()
        if not line:
            continue
        try:
            res = run(line)
        except (AssertionError, ValueError) as e:
            res = 'RAISE'
        except RecursionError:
            res = 'CRASH:RecursionError'
        except Exception as e:  # noqa: BLE001
            res = f'CRASH:{type(e).__name__}:{str(e)[:80]}'
        out.write(res + '\n')
    out.flush()


if __name__ == '__main__':
    main()

"""Implementation-side runner for C17 (executed under /venv with the repo's generation/src on
PYTHONPATH).  One JSON request per input line, one JSON answer per output line.

  {"op":"text","text":T}       lex T with the real lark lexer, parse_database(T), Encoder.encode_string,
                               parse again, print again
  {"op":"ast","ast":S}         build real AST objects from prefix string S, encode_string, lex + parse it
  {"op":"seq","texts":[T1,T2,..]}  parse the texts one after the other in this process (history dependence)
  {"op":"slice","ast":S | "text":T, "sd":null|{label:[deps]}, "incl":null|[labels], "excl":[labels]}
                               slice_database (generator driven until it raises), each slice: AST,
                               printed text, re-parsed AST
"""
import json
import os
import sys

sys.path.insert(0, os.path.dirname(os.path.dirname(os.path.abspath(__file__))))
import mm17_fmt as F  # noqa: E402

from proof_generation.metamath import ast as A  # noqa: E402
from proof_generation.metamath import metamath_extract_slice as S  # noqa: E402
from proof_generation.metamath import parser as P  # noqa: E402

sys.setrecursionlimit(20000)


def term_t(t):
    if isinstance(t, A.Metavariable):
        return ('M', t.name)
    assert isinstance(t, A.Application), type(t)
    return ('A', t.symbol, tuple(term_t(x) for x in t.subterms))


def stmt_t(s):
    if isinstance(s, A.ConstantStatement):
        return ('C', tuple(s.constants))
    if isinstance(s, A.VariableStatement):
        return ('V', tuple(m.name for m in s.metavariables))
    if isinstance(s, A.DisjointStatement):
        return ('D', tuple(m.name for m in s.metavariables))
    if isinstance(s, A.FloatingStatement):
        ty, v = s.terms
        assert isinstance(ty, A.Application) and not ty.subterms and isinstance(v, A.Metavariable)
        return ('F', s.label, ty.symbol, v.name)
    if isinstance(s, A.EssentialStatement):
        return ('E', s.label, tuple(term_t(t) for t in s.terms))
    if isinstance(s, A.AxiomaticStatement):
        return ('A', s.label, tuple(term_t(t) for t in s.terms))
    if isinstance(s, A.ProvableStatement):
        return ('P', s.label, tuple(term_t(t) for t in s.terms), None if s.proof is None else tuple(s.proof.split()))
    if isinstance(s, A.Block):
        return ('B', tuple(stmt_t(x) for x in s.statements))
    raise TypeError(type(s))


def db_t(db):
    return tuple(stmt_t(s) for s in db.statements)


def term_o(t):
    if t[0] == 'M':
        return A.Metavariable(t[1])
    return A.Application(t[1], tuple(term_o(x) for x in t[2]))


def stmt_o(s):
    k = s[0]
    if k == 'C':
        return A.ConstantStatement(tuple(s[1]))
    if k == 'V':
        return A.VariableStatement(tuple(A.Metavariable(x) for x in s[1]))
    if k == 'D':
        return A.DisjointStatement(tuple(A.Metavariable(x) for x in s[1]))
    if k == 'F':
        return A.FloatingStatement(s[1], (A.Application(s[2]), A.Metavariable(s[3])))
    if k == 'E':
        return A.EssentialStatement(s[1], tuple(term_o(t) for t in s[2]))
    if k == 'A':
        return A.AxiomaticStatement(s[1], tuple(term_o(t) for t in s[2]))
    if k == 'P':
        return A.ProvableStatement(s[1], tuple(term_o(t) for t in s[2]), None if s[3] is None else ' '.join(s[3]))
    if k == 'B':
        return A.Block(tuple(stmt_o(x) for x in s[1]))
    raise ValueError(k)


def db_o(t):
    return A.Database(tuple(stmt_o(s) for s in t))


def ename(e):
    n = type(e).__name__
    if n == 'VisitError':
        n += ':' + type(getattr(e, 'orig_exc', None)).__name__
    return n


def lex(text):
    try:
        return [t.value for t in P.database_parser.lex(text)], None
    except Exception as e:  # noqa: BLE001
        return None, ename(e)


def parse(text):
    try:
        return P.parse_database(text), None
    except Exception as e:  # noqa: BLE001
        return None, ename(e)


def do_text(req):
    text = req['text']
    res = {}
    toks, lerr = lex(text)
    res['toks'], res['lex_err'] = toks, lerr
    db, perr = parse(text)
    res['parse_err'] = perr
    if db is None:
        res['ast'] = None
        return res
    res['ast'] = F.db_str(db_t(db))
    printed = A.Encoder.encode_string(db)
    res['printed'] = printed
    db2, perr2 = parse(printed)
    res['reparse_err'] = perr2
    res['reparse'] = None if db2 is None else F.db_str(db_t(db2))
    res['reparse_eq'] = (db2 == db) if db2 is not None else False
    res['reprint_eq'] = (A.Encoder.encode_string(db2) == printed) if db2 is not None else False
    return res


def do_ast(req):
    db = db_o(F.parse_db_str(req['ast']))
    res = {}
    try:
        printed = A.Encoder.encode_string(db)
    except Exception as e:  # noqa: BLE001
        res['print_err'] = ename(e)
        return res
    res['printed'] = printed
    res['toks'], res['lex_err'] = lex(printed)
    db2, perr = parse(printed)
    res['parse_err'] = perr
    res['reparse'] = None if db2 is None else F.db_str(db_t(db2))
    res['reparse_eq'] = (db2 == db) if db2 is not None else False
    return res


def do_slice(req):
    res = {}
    if req.get('text') is not None:
        db, perr = parse(req['text'])
        if db is None:
            res['parse_err'] = perr
            return res
        res['ast'] = F.db_str(db_t(db))
    else:
        db = db_o(F.parse_db_str(req['ast']))
    sd = req.get('sd')
    if sd is None:
        try:
            sd = S.syntax_dependencies(db)
            res['sd_err'] = None
        except Exception as e:  # noqa: BLE001
            sd = {}
            res['sd_err'] = ename(e)
    sd = {k: tuple(v) for k, v in sd.items()}
    res['sd'] = {k: list(v) for k, v in sd.items()}
    incl = req.get('incl')
    if incl is None:
        incl = []

        def coll(st):
            if isinstance(st, A.ProvableStatement):
                incl.append(st.label)
            return st
        db.bottom_up(coll)
    res['incl'] = list(incl)
    excl = req.get('excl') or []
    out = []
    res['crash'] = None
    try:
        for label, sl in S.slice_database(db, sd, set(incl), set(excl)):
            item = {'label': label, 'ast': F.db_str(db_t(sl))}
            printed = A.Encoder.encode_string(sl)
            item['printed'] = printed
            db2, perr = parse(printed)
            item['reparse_err'] = perr
            item['reparse'] = None if db2 is None else F.db_str(db_t(db2))
            out.append(item)
    except Exception as e:  # noqa: BLE001
        res['crash'] = ename(e)
    res['slices'] = out
    return res


def do_seq(req):
    """several databases parsed one after the other in THIS process; for each: the AST, its printed text,
    and (for the later ones) the slices of the AST obtained here"""
    out = []
    for k, text in enumerate(req['texts']):
        item = do_text({'text': text})
        if item.get('ast') is not None and k > 0:
            item['slice'] = do_slice({'ast': item['ast']})
        out.append(item)
    return {'seq': out}


def main():
    for line in sys.stdin:
        line = line.strip()
        if not line:
            continue
        req = json.loads(line)
        try:
            if req['op'] == 'text':
                res = do_text(req)
            elif req['op'] == 'ast':
                res = do_ast(req)
            elif req['op'] == 'slice':
                res = do_slice(req)
            elif req['op'] == 'seq':
                res = do_seq(req)
            else:
                res = {'error': 'unknown op'}
        except Exception as e:  # noqa: BLE001
            import traceback
            res = {'error': ename(e), 'trace': traceback.format_exc()[-800:]}
        sys.stdout.write(json.dumps(res) + '\n')
    sys.stdout.flush()


if __name__ == '__main__':
    main()

"""Implementation-side runner for C09 (tautology prover).  Executed under /venv with the repo on
PYTHONPATH.  Line protocol (one request per line on stdin, one answer line on stdout):

  P <form>            full pipeline of prove_tautology, every stage output, resolution trace, verdict
  N|C|L <cf>          propag_neg / to_cnf / to_clauses on an arbitrary ConjForm tree
  R <clauses>         start_resolution_algorithm on an arbitrary clause list (verdict, list, hint, build)
  V <clause> <clause> resolvable on frozensets
  S <clause> <int>    simplify_clause (clause part)
  MC <l> <r>          conclusion of merge_clauses (tie with the model's s_merge)
  SC <clause> <x> / TC <clause> / OM <positions> <n>   conclusions of simplify_clause / prove_trivial_clause /
                      or_move_to_front (tie with the model's s_simplify / s_trivial / or_move_to_front)
  QP S|M|T ...        run-time check of the helper specs H_simplify / H_merge / H_trivial of Taut/Glue.v
  QS <N|C|L> <cf>     proof layer of one stage on an arbitrary well-shaped ConjForm tree
  Q <form>            proof layer: run every returned ProofThunk under StatefulInterpreter and compare
                      its conclusion literally with the advertised pattern
  O <form>            oracle only: truth-table classification + verdict of prove_tautology

Syntax (prefix, space separated):
  form    b | t | v<n> | c<n> (metavariable with an e_fresh constraint) | i F F | n F | a F F | o F F | e F F
  cf      B<0|1> | V<0|1>:<id> | O<0|1> CF CF | A<0|1> CF CF
  clauses L[1,-2][3]   (L alone = empty list, L[] = one empty clause)
"""
import hashlib
import signal
import sys
import itertools

sys.setrecursionlimit(20000)

from proof_generation.pattern import EVar, Implies, Instantiate, MetaVar, Mu, SVar, _and, _or, bot, equiv, neg, top  # noqa: E402
from proof_generation import tautology as T  # noqa: E402
from proof_generation.interpreter import ExecutionPhase  # noqa: E402
from proof_generation.stateful_interpreter import StatefulInterpreter  # noqa: E402

TIMEOUT = 20


class Timeout(Exception):
    pass


def _alarm(signum, frame):
    raise Timeout()


signal.signal(signal.SIGALRM, _alarm)


# ---------------------------------------------------------------------------------- parsing
def parse_form(toks):
    t = toks.pop(0)
    if t == 'b':
        return bot()
    if t == 't':
        return top()
    if t[0] == 'v':
        return MetaVar(int(t[1:]))
    if t[0] == 'c':   # constrained metavariable (same id space as v<n>)
        return MetaVar(int(t[1:]), e_fresh=(EVar(1),))
    if t == 'n':
        return neg(parse_form(toks))
    a = parse_form(toks)
    b = parse_form(toks)
    return {'i': Implies, 'a': _and, 'o': _or, 'e': equiv}[t](a, b)


def parse_cf(toks):
    t = toks.pop(0)
    k, n = t[0], t[1] == '1'
    if k == 'B':
        return T.CFBot(n)
    if k == 'V':
        c = T.CFVar(int(t[3:]))
        c.negated = n
        return c
    l = parse_cf(toks)
    r = parse_cf(toks)
    c = T.CFOr(l, r) if k == 'O' else T.CFAnd(l, r)
    c.negated = n
    return c


def parse_clause(s):
    s = s.strip('[]{}')
    return [int(x) for x in s.split(',')] if s else []


def parse_clauses(s):
    assert s[0] == 'L'
    body = s[1:]
    if not body:
        return []
    return [parse_clause(x) for x in body[1:-1].split('][')]


# ---------------------------------------------------------------------------------- printing
def show_core(p):
    """full expansion of a propositional pattern, computed with the implementation's own
    simplify(); prefix tokens b / v<n> / i"""
    while isinstance(p, Instantiate):
        p = p.simplify()
    if isinstance(p, Mu) and p == Mu(0, SVar(0)):
        return 'b'
    if isinstance(p, MetaVar):
        return f'v{p.name}' if p == MetaVar(p.name) else f'c{p.name}'
    if isinstance(p, Implies):
        return f'i {show_core(p.left)} {show_core(p.right)}'
    raise ValueError('not propositional: ' + str(p))


def show_cf(c):
    n = '1' if c.negated else '0'
    if isinstance(c, T.CFBot):
        return 'B' + n
    if isinstance(c, T.CFVar):
        return f'V{n}:{c.id}'
    k = 'O' if isinstance(c, T.CFOr) else 'A'
    return f'{k}{n} {show_cf(c.left)} {show_cf(c.right)}'


def show_clause(c):
    return '[' + ','.join(str(x) for x in c) + ']'


def show_clauses(cs):
    return 'L' + ''.join(show_clause(c) for c in cs)


def show_set(s):
    return '{' + ','.join(str(x) for x in sorted(s)) + '}'


def show_hint(h):
    out = []
    for k, v in h.items():
        if isinstance(v, T.ResolutionHintSource):
            out.append(f'{show_set(k)}=R{show_set(v.left_set)}{show_set(v.right_set)}{v.resolvant}')
        else:
            out.append(f'{show_set(k)}=I{v}')
    return ' '.join(out) if out else '-'


# ---------------------------------------------------------------------------------- spies
class Spy(T.Tautology):
    """records the arguments of resolution_algorithm (mutated in place by the real method) and the
    top-level result of build_proof_from_hint; behaviour is otherwise the real code's"""

    def __init__(self):
        super().__init__()
        self.trace = None
        self.build = None
        self._depth = 0

    def resolution_algorithm(self, hint, l):
        self.trace = (hint, l, None)
        r = super().resolution_algorithm(hint, l)
        self.trace = (hint, l, r)
        return r

    def build_proof_from_hint(self, hint, cl, terms):
        self._depth += 1
        try:
            r = super().build_proof_from_hint(hint, cl, terms)
        finally:
            self._depth -= 1
        if self._depth == 0:
            self.build = r[0]
        return r


TAUT = Spy()
LAST = {'clauses': None}     # number of clauses of the case being processed (for the RecursionError report)


def fresh_interpreter():
    it = StatefulInterpreter(ExecutionPhase.Gamma)
    TAUT.execute_gamma_phase(it)
    TAUT.execute_claims_phase(it)
    return it


def show_resolution(res):
    """res = return value of start_resolution_algorithm"""
    v = 'N' if res is None else ('T' if res[0] else 'F')
    if TAUT.trace is None:
        return f'res={v} l=- hint=- build=-'
    hint, l, _ = TAUT.trace
    b = '-' if TAUT.build is None else show_clause(TAUT.build)
    return f'res={v} l={"".join(show_set(c) for c in l)} hint={show_hint(hint)} build={b}'


# ---------------------------------------------------------------------------------- commands
def cmd_P(arg):
    pat = parse_form(arg.split())
    out = ['expand=' + show_core(pat)]
    TAUT.trace = None
    TAUT.build = None
    conj, cp1, cp2 = TAUT.to_conj_form(neg(pat))
    out.append('conj=' + show_cf(conj))
    s1 = show_core(cp1.conc) + '|' + ('-' if cp2 is None else show_core(cp2.conc))
    if isinstance(conj, T.CFBot):
        out.append('pl=' + hashlib.md5((s1 + '|-').encode()).hexdigest())
        out.append('verdict=' + ('F' if conj.negated else 'T'))
        return ' ; '.join(out)
    n, np1, np2 = TAUT.propag_neg(conj)
    out.append('pl=' + hashlib.md5((s1 + '|' + show_core(np1.conc) + '|' + show_core(np2.conc)).encode()).hexdigest())
    out.append('neg=' + show_cf(n))
    c, cq1, cq2 = TAUT.to_cnf(n)
    out.append('cnf=' + show_cf(c))
    out.append('plc=' + hashlib.md5((show_core(cq1.conc) + '|' + show_core(cq2.conc)).encode()).hexdigest())
    cls, lq1, lq2 = TAUT.to_clauses(c)
    LAST['clauses'] = len(cls)
    out.append('cls=' + show_clauses(cls))
    out.append('pll=' + hashlib.md5((show_core(lq1.conc) + '|' + show_core(lq2.conc)).encode()).hexdigest())
    res = TAUT.start_resolution_algorithm(cls)
    out.append(show_resolution(res))
    v = 'N' if res is None else ('F' if res[0] else 'T')
    out.append('verdict=' + v)
    # the entry point itself, on a fresh copy of the pattern
    res2 = TAUT.prove_tautology(parse_form(arg.split()))
    v2 = 'N' if res2 is None else ('T' if res2[0] else 'F')

    def show_pf(r):
        return 'N' if r is None else ('T' if r[0] else 'F') + show_core(r[1].conc)
    out.append('plf=' + hashlib.md5((show_pf(res) + '|' + show_pf(res2)).encode()).hexdigest())
    out.append('entry=' + v2)
    return ' ; '.join(out)


def cmd_stage(which, arg):
    term = parse_cf(arg.split())
    if which == 'N':
        r, _, _ = TAUT.propag_neg(term)
        return show_cf(r)
    if which == 'C':
        r, _, _ = TAUT.to_cnf(term)
        return show_cf(r)
    r, _, _ = TAUT.to_clauses(term)
    return show_clauses(r)


def cmd_R(arg):
    cls = parse_clauses(arg.strip())
    LAST['clauses'] = len(cls)
    TAUT.trace = None
    TAUT.build = None
    res = TAUT.start_resolution_algorithm(cls)
    return show_resolution(res)


def cmd_V(arg):
    a, b = arg.split()
    r = TAUT.resolvable(frozenset(parse_clause(a)), frozenset(parse_clause(b)))
    if r is None:
        return 'None'
    return f'{r[0]} {show_set(r[1])}'


def cmd_S(arg):
    a, x = arg.split()
    r, _ = TAUT.simplify_clause(parse_clause(a), int(x))
    return show_clause(r)


# ---- oracle ------------------------------------------------------------------------------------
def ev(toks, v):
    t = toks.pop(0)
    if t == 'b':
        return False
    if t == 't':
        return True
    if t[0] in 'vc':
        return v[int(t[1:])]
    if t == 'n':
        return not ev(toks, v)
    a = ev(toks, v)
    b = ev(toks, v)
    if t == 'i':
        return (not a) or b
    if t == 'a':
        return a and b
    if t == 'o':
        return a or b
    return a == b


def classify(arg):
    toks = arg.split()
    vs = sorted({int(t[1:]) for t in toks if t[0] in 'vc' and t[1:].isdigit()})
    vals = set()
    for bits in itertools.product([False, True], repeat=len(vs)):
        v = dict(zip(vs, bits))
        vals.add(ev(list(toks), v))
    if vals == {True}:
        return 'T'
    if vals == {False}:
        return 'F'
    return 'N'


def cmd_O(arg):
    res = TAUT.prove_tautology(parse_form(arg.split()))
    v = 'N' if res is None else ('T' if res[0] else 'F')
    return f'{classify(arg)} {v}'


# ---- proof layer -------------------------------------------------------------------------------
def same(a, b):
    """literal comparison: the implementation's == AND equality of the full expansions"""
    return a == b and show_core(a) == show_core(b)


def cmd_Q(arg):
    """every ProofThunk returned by a stage is executed; its Proved.conclusion is compared with the
    advertised pattern"""
    it = fresh_interpreter()
    pat = parse_form(arg.split())
    npat = neg(pat)
    bad = []

    def chk(name, pf, expected):
        if pf is None:
            bad.append(name + ':missing')
            return
        try:
            conc = pf(it).conclusion
        except Timeout:
            raise
        except BaseException as e:  # noqa: BLE001
            bad.append(f'{name}:raise:{type(e).__name__}')
            return
        if not same(conc, expected) or not same(pf.conc, expected):
            bad.append(f'{name}:conc')

    n_checked = 0
    conj, p1, p2 = TAUT.to_conj_form(npat)
    if isinstance(conj, T.CFBot):
        chk('conj_bot', p1, npat if conj.negated else neg(npat))
        n_checked += 1
    else:
        r1 = T.conj_to_pattern(conj)
        chk('conj1', p1, Implies(npat, r1))
        chk('conj2', p2, Implies(r1, npat))
        n, p1, p2 = TAUT.propag_neg(conj)   # mutates conj: r1 was computed before
        r2 = T.conj_to_pattern(n)
        chk('neg1', p1, Implies(r1, r2))
        chk('neg2', p2, Implies(r2, r1))
        c, p1, p2 = TAUT.to_cnf(n)
        r3 = T.conj_to_pattern(c)
        chk('cnf1', p1, Implies(r2, r3))
        chk('cnf2', p2, Implies(r3, r2))
        cls, p1, p2 = TAUT.to_clauses(c)
        LAST['clauses'] = len(cls)
        r4 = T.clause_conjunctionto_pattern(cls)
        chk('cls1', p1, Implies(r3, r4))
        chk('cls2', p2, Implies(r4, r3))
        res = TAUT.start_resolution_algorithm(cls)
        if res is not None:
            chk('res', res[1], r4 if res[0] else neg(r4))
        n_checked += 9
    pat2 = parse_form(arg.split())
    res = TAUT.prove_tautology(pat2)
    if res is None:
        v = 'N'
    else:
        v = 'T' if res[0] else 'F'
        chk('final', res[1], pat2 if res[0] else neg(pat2))
        n_checked += 1
    return f'{v} checked={n_checked} ' + ('OK' if not bad else 'BAD ' + ','.join(bad))


def cmd_QS(arg):
    """QS <N|C|L> <cf>: run one stage on an arbitrary ConjForm tree, execute its two proofs and compare
    their conclusions with `input -> output` / `output -> input`"""
    which, _, rest = arg.partition(' ')
    term = parse_cf(rest.split())
    before = T.conj_to_pattern(term)          # propag_neg mutates its argument
    it = fresh_interpreter()
    if which == 'N':
        r, p1, p2 = TAUT.propag_neg(term)
        after = T.conj_to_pattern(r)
    elif which == 'C':
        r, p1, p2 = TAUT.to_cnf(term)
        after = T.conj_to_pattern(r)
    else:
        r, p1, p2 = TAUT.to_clauses(term)
        after = T.clause_conjunctionto_pattern(r)
    bad = []
    for name, pf, exp in (('1', p1, Implies(before, after)), ('2', p2, Implies(after, before))):
        try:
            conc = pf(it).conclusion
        except Timeout:
            raise
        except BaseException as e:  # noqa: BLE001
            bad.append(f'pf{name}:raise:{type(e).__name__}')
            continue
        if not same(conc, exp) or not same(pf.conc, exp):
            bad.append(f'pf{name}:conc')
    return 'OK' if not bad else 'BAD ' + ','.join(bad)


def cmd_QP(arg):
    """run-time check of the three helper specs assumed by Taut/Glue.v:
       QP S <clause> <x>   H_simplify: simplify_clause(cl, x)[1] proves clause(cl) <-> clause(simplified)
       QP M <l> <r>        H_merge:    merge_clauses(pat l, len l, pat r) proves clause(l) or clause(r) <-> clause(l + r)
       QP T <clause>       H_trivial:  prove_trivial_clause(cl) proves clause(cl)"""
    parts = arg.split()
    it = fresh_interpreter()
    if parts[0] == 'S':
        cl, x = parse_clause(parts[1]), int(parts[2])
        r, pf = TAUT.simplify_clause(list(cl), x)
        exp = equiv(T.clause_to_pattern(cl), T.clause_to_pattern(r))
    elif parts[0] == 'M':
        l, r = parse_clause(parts[1]), parse_clause(parts[2])
        lp, rp = T.clause_to_pattern(l), T.clause_to_pattern(r)
        pf = TAUT.merge_clauses(lp, len(l), rp)
        exp = equiv(_or(lp, rp), T.clause_to_pattern(l + r))
    else:
        cl = parse_clause(parts[1])
        pf = TAUT.prove_trivial_clause(cl)
        exp = T.clause_to_pattern(cl)
    try:
        conc = pf(it).conclusion
    except Timeout:
        raise
    except BaseException as e:  # noqa: BLE001
        return f'BAD raise:{type(e).__name__}'
    return 'OK' if same(conc, exp) and same(pf.conc, exp) else 'BAD conc'


def handle(line):
    cmd, _, arg = line.partition(' ')
    if cmd == 'QP':
        return cmd_QP(arg)
    if cmd == 'SC':     # conclusion of simplify_clause's proof (not executed) vs the model's s_simplify
        a, x = arg.split()
        return hashlib.md5(show_core(TAUT.simplify_clause(parse_clause(a), int(x))[1].conc).encode()).hexdigest()
    if cmd == 'TC':     # conclusion of prove_trivial_clause vs s_trivial
        return hashlib.md5(show_core(TAUT.prove_trivial_clause(parse_clause(arg.strip())).conc).encode()).hexdigest()
    if cmd == 'OM':     # conclusion of or_move_to_front(positions, [phi0..phi(n-1)]) vs the model
        ps, n = arg.split()
        pf = TAUT.or_move_to_front(parse_clause(ps), [MetaVar(i) for i in range(int(n))])
        return hashlib.md5(show_core(pf.conc).encode()).hexdigest()
    if cmd == 'MC':     # conclusion of merge_clauses (not executed), compared with the model's s_merge
        a, b = arg.split()
        l, r = parse_clause(a), parse_clause(b)
        pf = TAUT.merge_clauses(T.clause_to_pattern(l), len(l), T.clause_to_pattern(r))
        return hashlib.md5(show_core(pf.conc).encode()).hexdigest()
    if cmd == 'QS':
        return cmd_QS(arg)
    if cmd == 'P':
        return cmd_P(arg)
    if cmd in ('N', 'C', 'L'):
        return cmd_stage(cmd, arg)
    if cmd == 'R':
        return cmd_R(arg)
    if cmd == 'V':
        return cmd_V(arg)
    if cmd == 'S':
        return cmd_S(arg)
    if cmd == 'O':
        return cmd_O(arg)
    if cmd == 'Q':
        return cmd_Q(arg)
    return 'BADCMD'


def main():
    global TIMEOUT
    if len(sys.argv) > 1:
        TIMEOUT = int(sys.argv[1])
    for line in sys.stdin:
        line = line.rstrip('\n')
        if not line:
            print('')
            continue
        LAST['clauses'] = None
        TAUT.trace = None
        try:
            signal.alarm(TIMEOUT)
            try:
                out = handle(line)
            finally:
                signal.alarm(0)
        except Timeout:
            out = 'TIMEOUT'
        except RecursionError as e:
            # D17.  Report where the limit was hit: `origin=pattern` when the innermost hand-written frame is in
            # pattern.py (Instantiate.__eq__/simplify/instantiate, ...), plus what had been computed so far
            # (clause count, answer of the saturation loop).
            # innermost frame that is not dataclass-generated code ('<string>': __eq__/__init__/__hash__ of the
            # Pattern dataclasses, which pattern.py calls while comparing / simplifying / instantiating)
            tb = e.__traceback__
            fn, name = '?', '?'
            while tb is not None:
                c = tb.tb_frame.f_code
                if c.co_filename != '<string>':
                    fn, name = c.co_filename, c.co_name
                tb = tb.tb_next
            origin = 'pattern' if fn.endswith('pattern.py') else fn.split('/')[-1] + ':' + name
            del tb
            loop = '?' if TAUT.trace is None else {True: 'T', False: 'F', None: '?'}[TAUT.trace[2]]
            out = f'ERR RecursionError origin={origin} clauses={LAST["clauses"]} loop={loop}'
        except Exception as e:  # noqa: BLE001  (one bad case must not kill the whole chunk)
            out = 'ERR ' + type(e).__name__
        print(out)
        sys.stdout.flush()


if __name__ == '__main__':
    main()

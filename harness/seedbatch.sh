#!/bin/bash
# usage: harness/seedbatch.sh <outdir e.g. /tmp/seed/out2> <Cxx...>  — runs each property's 3 seeds against its own check, prints a compact report
out=$1; shift
cd "$(dirname "$0")/.."
for p in "$@"; do for n in 1 2 3; do
  [ -f $out/$p/$n/patch.diff ] || continue
  echo "##### $p seed $n"
  harness/seedrun.sh $out/$p/$n/patch.diff $p 2>&1 | grep -v KNOWN | grep -E "^\[|^    |APPLY" | cut -c1-230 | tail -4
done; done

"""Independent token-level Metamath verifier (oracle for C15-C17 style checks; written from the
Metamath book, section 4 and Appendix B; shares no code with /repo or with the Coq model).

verify(src, target) -> (ok: bool, why: str, statement tokens of target)
Supports $c $v $f $e $a $p ${ $} $d(ignored: fragment has none) comments; normal and compressed proofs.
"""
from __future__ import annotations


class MMError(Exception):
    pass


def tokens(src):
    out = []
    it = iter(src.split())
    for t in it:
        if t == '$(':
            for u in it:
                if u == '$)':
                    break
            continue
        out.append(t)
    return out


class Frame:
    def __init__(self):
        self.c, self.v, self.f, self.e, self.flabel = set(), set(), [], [], {}


class DB:
    def __init__(self):
        self.frames = [Frame()]
        self.labels = {}      # label -> ('$f'|'$e', stmt) | ('$a'|'$p', (mand_hyps, stmt))
        self.order = 0

    def active_v(self):
        return set().union(*[fr.v for fr in self.frames])

    def active_c(self):
        return set().union(*[fr.c for fr in self.frames])

    def active_f(self):
        return [x for fr in self.frames for x in fr.f]     # (order, label, tc, var)

    def active_e(self):
        return [x for fr in self.frames for x in fr.e]     # (order, label, stmt)

    def assertion(self, stmt):
        es = self.active_e()
        vs = self.active_v()
        used = {t for _, _, s in es for t in s if t in vs} | {t for t in stmt if t in vs}
        hyps = [(o, 'f', l, (tc, v)) for (o, l, tc, v) in self.active_f() if v in used]
        fv = {v for (_, _, _, (tc, v)) in hyps}
        if used - fv:
            raise MMError(f'variable without active $f: {sorted(used - fv)}')
        hyps += [(o, 'e', l, s) for (o, l, s) in es]
        hyps.sort()
        return [(k, l, s) for (_, k, l, s) in hyps], list(stmt)


def decode_compressed(letters):
    nums, cur = [], 0
    for ch in letters:
        if 'A' <= ch <= 'T':
            nums.append(20 * cur + (ord(ch) - ord('A') + 1))
            cur = 0
        elif 'U' <= ch <= 'Y':
            cur = 5 * cur + (ord(ch) - ord('U') + 1)
        elif ch == 'Z':
            if cur:
                raise MMError('Z inside a number')
            nums.append(0)
        else:
            raise MMError(f'bad letter {ch}')
    if cur:
        raise MMError('unterminated number')
    return nums


def verify(src, target):
    tk = tokens(src)
    db = DB()
    i = 0
    result = None

    def read_until(end):
        nonlocal i
        out = []
        while i < len(tk) and tk[i] != end:
            out.append(tk[i])
            i += 1
        if i >= len(tk):
            raise MMError(f'missing {end}')
        i += 1
        return out

    def apply(stack, mand, concl):
        n = len(mand)
        if len(stack) < n:
            raise MMError('stack underflow')
        args = stack[len(stack) - n:]
        del stack[len(stack) - n:]
        sub = {}
        for (k, _, s), a in zip(mand, args):
            if k == 'f':
                if a[0] != s[0]:
                    raise MMError(f'typecode mismatch {a[0]} vs {s[0]}')
                sub[s[1]] = a[1:]
            else:
                inst = [u for t in s for u in (sub[t] if t in sub else [t])]
                if inst != a:
                    raise MMError('essential hypothesis mismatch: ' + ' '.join(inst) + ' / ' + ' '.join(a))
        stack.append([u for t in concl for u in (sub[t] if t in sub else [t])])

    def step_label(stack, lab):
        if lab not in db.labels:
            raise MMError(f'unknown label {lab}')
        kind, data = db.labels[lab]
        if kind in ('$f', '$e'):
            # must be active
            act = {l for (_, l, _, _) in db.active_f()} | {l for (_, l, _) in db.active_e()}
            if lab not in act:
                raise MMError(f'inactive hypothesis {lab}')
            stack.append(list(data))
        else:
            apply(stack, data[0], data[1])

    while i < len(tk):
        t = tk[i]
        i += 1
        if t == '$c':
            db.frames[-1].c.update(read_until('$.'))
        elif t == '$v':
            db.frames[-1].v.update(read_until('$.'))
        elif t == '$d':
            read_until('$.')
        elif t == '${':
            db.frames.append(Frame())
        elif t == '$}':
            db.frames.pop()
        else:
            lab = t
            if i >= len(tk):
                raise MMError('dangling label')
            kw = tk[i]
            i += 1
            if lab in db.labels:
                raise MMError(f'duplicate label {lab}')
            db.order += 1
            if kw == '$f':
                st = read_until('$.')
                if len(st) != 2 or st[1] not in db.active_v() or st[0] not in db.active_c():
                    raise MMError('bad $f')
                db.frames[-1].f.append((db.order, lab, st[0], st[1]))
                db.labels[lab] = ('$f', st)
            elif kw == '$e':
                st = read_until('$.')
                db.frames[-1].e.append((db.order, lab, st))
                db.labels[lab] = ('$e', st)
            elif kw == '$a':
                st = read_until('$.')
                sym = db.active_c() | db.active_v()
                if any(x not in sym for x in st):
                    raise MMError('undeclared symbol in ' + lab)
                db.labels[lab] = ('$a', db.assertion(st))
            elif kw == '$p':
                st = read_until('$=')
                proof = read_until('$.')
                mand, concl = db.assertion(st)
                if lab == target:
                    stack = []
                    if proof and proof[0] == '(':
                        j = proof.index(')')
                        plabels = proof[1:j]
                        nums = decode_compressed(''.join(proof[j + 1:]))
                        m = len(mand)
                        table = [l for (_, l, _) in mand] + plabels
                        saved = []
                        for n in nums:
                            if n == 0:
                                if not stack:
                                    raise MMError('Z on empty stack')
                                saved.append(list(stack[-1]))
                            elif n <= len(table):
                                step_label(stack, table[n - 1])
                            else:
                                k = n - len(table) - 1
                                if k >= len(saved):
                                    raise MMError('bad back-reference')
                                stack.append(list(saved[k]))
                    else:
                        for l in proof:
                            step_label(stack, l)
                    if len(stack) != 1:
                        raise MMError(f'stack has {len(stack)} entries at the end')
                    if stack[0] != concl:
                        raise MMError('proved ' + ' '.join(stack[0]) + ' instead of ' + ' '.join(concl))
                    result = concl
                db.labels[lab] = ('$p', (mand, concl))
            else:
                raise MMError(f'unexpected token {kw}')
    if result is None:
        raise MMError('target not found')
    return result


def check(src, target):
    try:
        st = verify(src, target)
        return True, '', st
    except MMError as e:
        return False, str(e), None

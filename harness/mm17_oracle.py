"""C17 harness oracles (pure Python, independent of the Coq model and of /repo):
a small reference Metamath verifier over tuple ASTs (see mm17_fmt), frame computation, compressed proof
codec, and the self-containedness check for slices.  Exploration/tie tools only."""
from __future__ import annotations


def flat(t):
    if t[0] == 'M':
        return [t[1]]
    if not t[2]:
        return [t[1]]
    out = ['(', t[1]]
    for a in t[2]:
        out += flat(a)
    out.append(')')
    return out


def flats(ts):
    out = []
    for t in ts:
        out += flat(t)
    return out


class Invalid(Exception):
    pass


class Scope:
    """Active declarations while walking a database (Metamath spec section 4.2)."""

    def __init__(self):
        self.consts = set()
        self.vars = set()
        self.hyps = []          # (label, 'f'|'e', expr, var|None) in order of appearance
        self.dvs = set()        # frozenset({x, y})
        self.labels = {}        # label -> ('hyp', idx) | ('assert', frame)
        self.all_labels = set()

    def copy_for_block(self):
        s = Scope.__new__(Scope)
        s.consts = self.consts            # $c inside blocks is illegal; shared
        s.vars = set(self.vars)
        s.hyps = list(self.hyps)
        s.dvs = set(self.dvs)
        s.labels = self.labels            # assertions survive; hyp labels are removed on exit
        s.all_labels = self.all_labels
        return s


def check_expr(sc, expr, what):
    if not expr:
        raise Invalid(f'empty expression in {what}')
    if expr[0] not in sc.consts:
        raise Invalid(f'undeclared-constant:{expr[0]} (typecode of {what})')
    for s in expr[1:]:
        if s not in sc.consts and s not in sc.vars:
            raise Invalid(f'undeclared-symbol:{s} in {what}')
    for s in expr:
        if s in sc.vars and not any(h[1] == 'f' and h[3] == s for h in sc.hyps):
            raise Invalid(f'no-active-$f:{s} in {what}')


def make_frame(sc, concl):
    ess = [h for h in sc.hyps if h[1] == 'e']
    used = set(s for s in concl if s in sc.vars)
    for h in ess:
        used |= set(s for s in h[2] if s in sc.vars)
    mand = [h for h in sc.hyps if h[1] == 'e' or h[3] in used]
    dvs = set(p for p in sc.dvs if p <= used)
    return dict(mand=[(h[0], h[1], tuple(h[2]), h[3]) for h in mand], dvs=dvs, concl=tuple(concl), vars=used)


def decode_letters(s):
    steps = []
    cur = 0
    for ch in s:
        if 'A' <= ch <= 'T':
            cur = cur * 20 + (ord(ch) - 64)
            steps.append(cur)
            cur = 0
        elif 'U' <= ch <= 'Y':
            cur = cur * 5 + (ord(ch) - 84)
        elif ch == 'Z':
            if cur != 0:
                raise Invalid('Z inside a number')
            steps.append('Z')
        else:
            raise Invalid(f'bad letter {ch!r}')
    if cur != 0:
        raise Invalid('unterminated number')
    return steps


def encode_number(n):
    n -= 1
    s = chr(65 + n % 20)
    n //= 20
    while n > 0:
        n -= 1
        s = chr(85 + n % 5) + s
        n //= 5
    return s


def subst(expr, sigma):
    out = []
    for s in expr:
        if s in sigma:
            out += sigma[s]
        else:
            out.append(s)
    return out


def apply_assertion(sc, fr, stack, check_dv=True):
    n = len(fr['mand'])
    if len(stack) < n:
        raise Invalid('stack underflow')
    args = stack[len(stack) - n:]
    del stack[len(stack) - n:]
    sigma = {}
    for (lab, kind, expr, var), a in zip(fr['mand'], args):
        if kind == 'f':
            if not a or a[0] != expr[0]:
                raise Invalid(f'typecode mismatch for {lab}')
            sigma[var] = list(a[1:])
        else:
            if subst(expr, sigma) != list(a):
                raise Invalid(f'essential hypothesis mismatch {lab}')
    if check_dv:
        for p in fr['dvs']:
            x, y = tuple(p)
            vx = [s for s in sigma.get(x, [x]) if s in sc.vars]
            vy = [s for s in sigma.get(y, [y]) if s in sc.vars]
            for a in vx:
                for b in vy:
                    if a == b or frozenset((a, b)) not in sc.dvs:
                        raise Invalid(f'disjoint variable violation {a} {b}')
    stack.append(subst(list(fr['concl']), sigma))


def run_proof(sc, fr, proof, check_dv=True):
    if proof is None:
        raise Invalid('no proof')
    proof = list(proof)
    if '?' in proof:
        raise Invalid('incomplete proof')
    stack = []

    def by_label(lab):
        e = sc.labels.get(lab)
        if e is None:
            raise Invalid(f'unknown-label:{lab}')
        if e[0] == 'hyp':
            stack.append(list(e[1]))
        else:
            apply_assertion(sc, e[1], stack, check_dv)

    if proof and proof[0] == '(':
        if ')' not in proof:
            raise Invalid('unterminated label list')
        k = proof.index(')')
        labels = proof[1:k]
        steps = decode_letters(''.join(proof[k + 1:]))
        m = len(fr['mand'])
        saved = []
        for st in steps:
            if st == 'Z':
                if not stack:
                    raise Invalid('Z on empty stack')
                saved.append(list(stack[-1]))
            elif st <= m:
                stack.append(list(fr['mand'][st - 1][2]))
            elif st <= m + len(labels):
                by_label(labels[st - m - 1])
            elif st <= m + len(labels) + len(saved):
                stack.append(list(saved[st - m - len(labels) - 1]))
            else:
                raise Invalid('step number out of range')
    else:
        for lab in proof:
            by_label(lab)
    if len(stack) != 1 or stack[0] != list(fr['concl']):
        raise Invalid('proof does not prove the statement')


def walk(db, on_provable=None, strict=True):
    """Walk the database; returns the final Scope.  on_provable(scope, label, frame, proof) is called for
    every $p.  strict: raise Invalid on undeclared symbols etc."""
    def go(stmts, sc):
        for s in stmts:
            k = s[0]
            if k == 'C':
                for c in s[1]:
                    sc.consts.add(c)
            elif k == 'V':
                for v in s[1]:
                    sc.vars.add(v)
            elif k == 'D':
                for v in s[1]:
                    if strict and v not in sc.vars:
                        raise Invalid(f'undeclared-variable:{v} in $d')
                for a in s[1]:
                    for b in s[1]:
                        if a != b:
                            sc.dvs.add(frozenset((a, b)))
            elif k == 'F':
                _, lab, ty, v = s
                if strict:
                    if ty not in sc.consts:
                        raise Invalid(f'undeclared-constant:{ty} (typecode of $f {lab})')
                    if v not in sc.vars:
                        raise Invalid(f'undeclared-variable:{v} in $f {lab}')
                sc.all_labels.add(lab)
                sc.hyps.append((lab, 'f', [ty, v], v))
                sc.labels[lab] = ('hyp', [ty, v])
            elif k == 'E':
                _, lab, ts = s
                e = flats(ts)
                if strict:
                    check_expr(sc, e, f'$e {lab}')
                sc.all_labels.add(lab)
                sc.hyps.append((lab, 'e', e, None))
                sc.labels[lab] = ('hyp', e)
            elif k in 'AP':
                lab, ts = s[1], s[2]
                e = flats(ts)
                if strict:
                    check_expr(sc, e, f'${k.lower()} {lab}')
                fr = make_frame(sc, e)
                if k == 'P' and on_provable is not None:
                    on_provable(sc, lab, fr, s[3])
                sc.all_labels.add(lab)
                sc.labels[lab] = ('assert', fr)
            elif k == 'B':
                inner = sc.copy_for_block()
                before = [h[0] for h in sc.hyps]
                go(s[1], inner)
                for h in inner.hyps[len(before):]:
                    if sc.labels.get(h[0], ('',))[0] == 'hyp':
                        del sc.labels[h[0]]
        return sc
    return go(db, Scope())


class _Done(Exception):
    pass


def verify(db, lemma, check_dv=True):
    """(True, '') if the first $p labelled `lemma` verifies in `db`, else (False, reason)."""
    res = {}

    def on_p(sc, lab, fr, proof):
        if lab == lemma:
            try:
                run_proof(sc, fr, proof, check_dv)
                res['r'] = (True, '')
            except Invalid as e:
                res['r'] = (False, str(e))
            raise _Done()
    try:
        walk(db, on_p)
    except _Done:
        return res['r']
    except Invalid as e:
        return (False, 'db: ' + str(e))
    return (False, 'lemma not found')


def provable_labels(db):
    out = []

    def go(ss):
        for s in ss:
            if s[0] == 'P':
                out.append(s[1])
            elif s[0] == 'B':
                go(s[1])
    go(db)
    return out


def top_floats(db):
    return [s for s in db if s[0] == 'F']


def is_subsequence(a, b):
    it = iter(b)
    return all(x in it for x in a)


def self_contained(db, sl, lemma):
    """problems (list of str) of slice `sl` for `lemma` of `db`; empty = self-contained in the sense of
    the property: declares every constant / variable / hypothesis its statements use, floating order kept,
    lemma present with the same statement and proof."""
    probs = []

    def on_p(sc, lab, fr, proof):
        if lab != lemma:
            return
        p = list(proof or ())
        if p and p[0] == '(' and ')' in p:
            for l in p[1:p.index(')')]:
                if l not in sc.labels:
                    probs.append(f'unknown-label:{l}')
    try:
        walk(sl, on_p, strict=True)
    except Invalid as e:
        probs.append(str(e))
    f_db = [(s[1], s[2], s[3]) for s in top_floats(db)]
    f_sl = [(s[1], s[2], s[3]) for s in top_floats(sl)]
    if not is_subsequence(f_sl, f_db):
        probs.append('floating-order')

    def find(ss):
        for s in ss:
            if s[0] == 'P' and s[1] == lemma:
                return s
            if s[0] == 'B':
                r = find(s[1])
                if r is not None:
                    return r
        return None
    a, b = find(db), find(sl)
    if b is None:
        probs.append('lemma-missing')
    elif a is not None and (a[2] != b[2] or a[3] != b[3]):
        probs.append('lemma-changed')
    return probs


def plainly_sliceable(db, lemma, sd=None):
    """True when every top-level statement up to (and including) the first $p `lemma` has a shape the slicer documents
    as supported: $c $v $d $f $e $a, flat blocks `${ ($d|$e)* $a $}` (possibly nested towards the axiom) and lemma blocks
    `${ ($d|$e)* $p $}`, every $p with a compressed proof `( labels ) letters` whose labels are earlier top-level keys.
    (and whose syntax dependencies `sd`, if given, only name earlier keys).
    Conservative: used to decide that a MISSING slice is a failure of the implementation, not of the input."""
    keys = set()

    def ax_block(ss):
        if not ss or any(x[0] not in 'DE' for x in ss[:-1]):
            return None
        last = ss[-1]
        if last[0] == 'A':
            return last[1]
        if last[0] == 'B':
            return ax_block(last[1])
        return None

    def compressed_ok(p):
        pf = list(p[3] or ())
        if len(pf) < 2 or pf[0] != '(' or ')' not in pf:
            return False
        k = pf.index(')')
        if '(' in pf[1:] or ')' in pf[k + 1:]:
            return False
        needed = set(pf[1:k])
        for l in list(needed):
            if l.endswith('is-pattern') and l[:-len('is-pattern')] + 'is-sugar' in keys:
                needed.add(l[:-len('is-pattern')] + 'is-sugar')
        for l in list(needed):
            needed |= set((sd or {}).get(l, ()))
        return all(l in keys for l in needed)

    for s in db:
        k = s[0]
        if k in 'CVD':
            continue
        if k in 'FEA':
            keys.add(s[1])
            continue
        p = None
        if k == 'P':
            p = s
        elif k == 'B':
            a = ax_block(s[1])
            if a is not None:
                keys.add(a)
                continue
            if s[1] and s[1][-1][0] == 'P' and all(x[0] in 'DE' for x in s[1][:-1]):
                p = s[1][-1]
        if p is None or not compressed_ok(p):
            return False
        if p[1] == lemma:
            return True
        keys.add(p[1])
    return False

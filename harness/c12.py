"""C12 - Notation is transparent.

proof : coq/Props/C12.v (py_eq_expand, equivalence, transparency of every operation through expand;
        _refuted witnesses per defect flag)
tie   : extracted model (ocaml/mlref_py, configuration = sound minus recorded findings) vs
        proof_generation.pattern on generated patterns with nested notation: literal answers of
        ==, evar_is_free, metavars, instantiate, apply_esubst/ssubst, simplify, unwrap/deconstruct, match_single
oracle: on the implementation alone: op(p) versus op on the reference expansion of p (pygen.ref_*)
"""
import json
import os

import common as C
import pycodec as PC
import pygen as G
import pyside as PS

CID = 'C12'
OPS = ['EQ', 'EQ', 'EQ', 'EQ', 'FR', 'FR', 'MV', 'I', 'I', 'ES', 'SS', 'SIMP', 'HNF', 'UI', 'UA', 'DE', 'DS', 'DY', 'DX', 'DM',
       'MS', 'MS', 'DN', 'DN', 'DNP', 'UW', 'UW', 'UE']


def sigfun(c, impl, got, flag, drop):
    if c.op == 'MV' and flag is None and isinstance(got, frozenset):
        want = c.spec(drop)
        if got > want:
            return 'C12:metavars:overapprox'      # Instantiate.metavars counts a plug that the expansion drops
    return None


def gen_cases(rng, sides, n, drop):
    gen = G.Gen(rng, notations=[nt for nt in sides.shipped if nt.family in (None, 'forall', 'nary_app')])
    for i in range(10):
        gen.notations.append(gen.random_notation(2, f'g{i}'))
    gen.notations += G.spine_notations(rng)
    binders = G.binder_notations(gen.notations)

    def context(a, b):
        # the same context around both sides (constructors and notation)
        for _k in range(rng.randrange(0, 3)):
            c = rng.random()
            if c < 0.4:
                o = gen.term(1)
                a, b = (('i', a, o), ('i', b, o)) if rng.random() < 0.5 else (('a', o, a), ('a', o, b))
            elif c < 0.6:
                v = gen.var()
                a, b = ('x', v, a), ('x', v, b)
            else:
                nt = rng.choice([x for x in gen.notations if x.arity >= 1])
                args = [gen.term(0) for _ in range(nt.arity)]
                j = rng.randrange(nt.arity)
                aa, bb = list(args), list(args)
                aa[j], bb[j] = a, b
                a, b = nt(*aa), nt(*bb)
        return a, b
    cases = []
    for _ in range(n):
        depth = rng.choice([1, 2, 2, 3, 3, 4])
        p = gen.term(depth)
        op = rng.choice(OPS)
        if op == 'EQ':
            c = rng.random()
            if c < 0.3:
                # two patterns over ONE definition: ignored arguments, partial applications, extra keys, reordered dicts
                p, q, _kind = G.related_pair(rng, gen, drop)
                p, q = context(p, q)
            elif c < 0.5:
                q = G.partial_unfold(rng, p, 0.5, drop)
            elif c < 0.55:
                q = p
            elif c < 0.8:
                q = gen.mutate(G.partial_unfold(rng, p, 0.3, drop) if rng.random() < 0.5 else p)
            else:
                q = gen.term(depth)
            if rng.random() < 0.5:
                p, q = q, p
            args = PC.show(p) + ' ' + PC.show(q)
        elif op == 'FR':
            c = rng.random()
            if c < 0.2:      # a definition with a pending substitution on ANOTHER variable than the queried one
                p, x = G.subst_body_case(rng, gen)
                args = f'{PC.show(p)} {x}'
            elif c < 0.3:    # the variable does not come in through an argument of the top-level Instantiate
                p, x = G.open_body_case(rng, gen)
                args = f'{PC.show(p)} {x}'
            else:
                args = f'{PC.show(p)} {gen.var()}'
        elif op in ('MV', 'SIMP', 'HNF', 'UI', 'UA', 'DE', 'DS', 'DY', 'DX', 'DM'):
            if op in ('DE', 'DS', 'DY') and rng.random() < 0.6:
                # leaves wrapped in notation layers so that the deconstructors have something to find
                leaf = {'DE': ('e', gen.var()), 'DS': ('s', gen.var()), 'DY': ('y', rng.choice(gen.syms))}[op]
                p = ('I', PC.mv(0), ((0, leaf),))
                for _k in range(rng.randrange(0, 3)):
                    p = ('I', PC.mv(1), ((1, p),))
            args = PC.show(p)
        elif op in ('UW', 'UE'):
            # unwrap / extract of ANY class on a notation-headed pattern: the base class Pattern (11), Instantiate itself (10),
            # the class of the expansion's head, or another one
            if p[0] != 'I' and rng.random() < 0.8:
                nt = rng.choice([x for x in gen.notations if x.arity >= 1])
                p = nt(*[gen.term(rng.choice([0, 1, 2])) for _ in range(nt.arity)])
            head = {'e': 0, 's': 1, 'y': 2, 'i': 3, 'a': 4, 'x': 5, 'm': 6, 'v': 7, 'E': 8, 'S': 9}[G.ref_expand(p, drop)[0]]
            code = rng.choice([11, 11, 11, 10, head, head, rng.randrange(12)])
            args = f'{code} {PC.show(p)}'
        elif op in ('DN', 'DNP'):
            # application spines through notation: n-ary applications, argument-permuting / metavariable-headed
            # definitions, dicts that are not in key order, partial applications
            nts = [x for x in gen.notations if x.arity >= 1 and (x.family == 'nary_app' or x.label in ('flip', 'diag', 'apply', 'rot', 'skip')
                                                                  or rng.random() < 0.15)]
            nt = rng.choice(nts)
            a_ = [gen.term(rng.choice([0, 1, 1, 2])) for _ in range(nt.arity)]
            items = list(enumerate(a_))
            c = rng.random()
            if c < 0.35:
                rng.shuffle(items)
            elif c < 0.45:
                items = items[:-1]
            p = ('I', nt.definition, tuple(items))
            if rng.random() < 0.3:
                p = ('a', p, gen.term(1))
            if op == 'DN':
                args = PC.show(p)
            else:       # an ==-equal pattern in another presentation, both orders, fresh cache per pair
                q = ('I', nt.definition, tuple(enumerate(a_))) if len(items) == nt.arity and rng.random() < 0.6 \
                    else G.partial_unfold(rng, p, 0.7, drop)
                if rng.random() < 0.5:
                    p, q = q, p
                args = PC.show(p) + ' ' + PC.show(q)
        elif op == 'I':
            if binders and rng.random() < 0.15:
                prem, d, _x = G.subst_under_binder(rng, gen, binders)
                args = PC.show(prem) + ' ' + PC.showd(d)
            else:
                args = PC.show(p) + ' ' + PC.showd(gen.delta(max(0, depth - 2)))
        elif op in ('ES', 'SS'):
            if op == 'ES' and binders and rng.random() < 0.2:      # substitute a variable the notation binds
                nt, x = rng.choice(binders)
                p = nt(*[('a', ('y', rng.choice(gen.syms)), ('e', x)) if rng.random() < 0.7 else gen.term(1) for _ in range(nt.arity)])
                args = f'{PC.show(p)} {x} {PC.show(gen.term(1))}'
            else:
                args = f'{PC.show(p)} {gen.var()} {PC.show(gen.term(max(0, depth - 2)))}'
        else:  # MS: instance = pattern instantiated (by construction an instance) or arbitrary
            pat = gen.term(depth, subst=0.02)
            c = rng.random()
            if c < 0.6:
                th = gen.delta(1, keys=range(gen.nmv))
                inst = ('I', pat, th) if rng.random() < 0.5 else G.partial_unfold(rng, ('I', pat, th), 0.7, drop)
                if rng.random() < 0.25:
                    inst = gen.mutate(inst)
            else:
                inst = gen.term(depth)
            seed = gen.delta(1) if rng.random() < 0.2 else ()
            args = PC.show(pat) + ' ' + PC.show(inst) + ' ' + PC.showd(seed)
        cases.append(PS.make_case(op, args, sides.notn_by_id))
    return cases


def corpus_cases():
    out = []
    d = os.path.join(C.VERIF, 'harness', 'corpus', CID)
    if os.path.isdir(d):
        for fn in sorted(os.listdir(d)):
            if fn.endswith('.json'):
                j = json.load(open(os.path.join(d, fn)))
                out.append(PS.make_case(j['op'], j['args']))
    return out


def run(tier, seed):
    R = C.Report(CID, tier, seed)
    PS.drop_stale_known(R, PS.MY_PROPS)
    rng = C.rng_for(seed, CID)
    n = 20000 if tier == 'quick' else 600000

    P = PS.proof_stage(R)
    proof_broken = not P['ok']

    sides = PS.Sides()
    cfg = PS.expected_config()
    det = sides.detect_config()
    R.notes.append({'expected_config': cfg, 'detected_config': det})
    config_drift = {fl: det[fl] for fl in PS.FLAGS if det[fl] is not None and det[fl] != cfg[fl]}
    for fl, v in config_drift.items():
        if v:   # the implementation is repaired although the finding is still listed: follow the code
            cfg[fl] = True
            R.notes.append(f'finding for {fl} no longer reproduces; model run with the repaired configuration')
    drop = not cfg['f_mv_keep_subst']

    # corpus (refutation witnesses, minimised failures) first, then generated cases (in batches)
    budget = n if not proof_broken else 3 * n
    grng = rng

    def gen_fn(k):
        cs = gen_cases(grng, sides, k, drop)
        for c in cs[:6]:
            R.sample(f'{c.op} {c.args[:160]}')
        return cs
    mismatches, nfail, nmis = PS.check_in_batches(R, sides, cfg, CID, corpus_cases(), gen_fn, budget, sigfun=sigfun)
    if mismatches and not nfail:
        # the model no longer describes the code: widen the oracle search before giving up
        grng = C.rng_for(seed, CID + ':search')
        _, nfail, _ = PS.check_in_batches(R, sides, cfg, CID, [], gen_fn, 4 * n, sigfun=sigfun)
    failing = [None] * nfail

    if proof_broken and not R.violations:
        R.violation('proof-broken', 'Coq proof stage failed',
                    {'no_failing_input_found': True, 'theorem_or_correspondence': f'Props/{CID}.v', 'log': P['log']})
    if mismatches and not R.violations:
        R.violation('correspondence-broken', 'model (Py/Pattern.v) and pattern.py disagree',
                    {'no_failing_input_found': True,
                     'theorem_or_correspondence': 'correspondence mlref_py vs proof_generation.pattern '
                                                  f'(configuration {PS.flagstr(cfg)})',
                     'first_mismatches': mismatches[:5]})
    R.notes.append({'tie_mismatches': nmis, 'oracle_failures': nfail})
    R.coverage['rule'] = ('random generator-side patterns (depth 1-4; shipped + generated notations nested, partial '
                          'Instantiates, constrained metavariables, stacked substitutions) with operation arguments; '
                          'distinct = distinct (operation, arguments); non-trivial = an Instantiate is involved '
                          '(for simplify/destructuring: at the head)')
    return R.finish(level='proof', trusted_base=C.TRUSTED_COMMON + [
        'translators/pypattern.py (Python ast -> coq/Gen/PyPattern.v, fail closed; dynamic dispatch = generated recursive call)',
        'harness/impl/pat_runner.py + harness/pycodec.py (term codec), harness/pygen.py reference expansion/'
        'substitution/matching (oracle only)',
        'frozendict keys are unique and iterate in insertion order (modelled as association lists)'])


def replay(path):
    d = json.load(open(path))
    rp = d.get('replay', d)
    if 'op' not in rp:
        print(json.dumps(d, indent=1)[:4000])
        return 0
    sides = PS.Sides()
    cfg = PS.expected_config()
    c = PS.make_case(rp['op'], rp['args'])
    drop = not cfg['f_mv_keep_subst']
    i = sides.impl([c.req])[0]
    m = sides.model([c.req], cfg)[0]
    ms = sides.model([c.req], PS.SOUND)[0]
    print('request        :', c.op, c.args)
    print('implementation :', i)
    print(f'model {PS.flagstr(cfg)}   :', m)
    print('model sound    :', ms)
    print('property wants :', c.spec(drop))
    try:
        got = c.post(i, drop)
    except PS.BadAnswer:
        got = i
    print('implementation gives (after expansion):', got)
    ok = (got == c.spec(drop))
    print('HOLDS' if ok else 'VIOLATED')
    return 0 if ok else 1

"""C07 - Python proof rules apply exactly when the documented rule applies.

proof : coq/Props/C07.v (mp_exact, gen_exact as iff statements on expansions, inst_exact, agreement with the
        checker's inst; _refuted for D3/D5)
tie   : extracted basic_mp/basic_gen/basic_inst vs BasicInterpreter, StatefulInterpreter (prepared stack) and
        ProofExp.modus_ponens: returned conclusion or AssertionError
oracle: the documented rule evaluated on reference expansions (pygen.ref_*): applicable premises, mismatching
        antecedent, non-implication, generalised variable free in the consequent under 0-3 notation layers
"""
import json
import os

import common as C
import pycodec as PC
import pygen as G
import pyside as PS

CID = 'C07'


def present(rng, t, drop):
    c = rng.random()
    if c < 0.4:
        return t
    if c < 0.75:
        return G.partial_unfold(rng, t, 0.5, drop)
    return G.ref_expand(t, drop)


def wrap_layers(rng, gen, t, k):
    """put t under k notation layers (as an argument of random notations)"""
    for _ in range(k):
        nts = [n for n in gen.notations if n.arity >= 1]
        nt = rng.choice(nts)
        args = [gen.term(1) for _ in range(nt.arity)]
        args[rng.randrange(nt.arity)] = t
        t = nt(*args)
    return t


def gen_cases(rng, sides, n, drop):
    gen = G.Gen(rng, notations=[nt for nt in sides.shipped if nt.family in (None, 'forall')])
    for i in range(8):
        gen.notations.append(gen.random_notation(2, f'g{i}'))
    binders = G.binder_notations(gen.notations)
    cases = []
    for _ in range(n):
        depth = rng.choice([1, 2, 2, 3])
        c = rng.random()
        if c < 0.4:
            a, b = gen.term(depth), gen.term(depth)
            s = rng.random()
            if s < 0.2:        # antecedent and right premise built from ONE notation definition (ignored argument,
                               # partial vs fuller application, extra key, reordered dict, one argument changed)
                x_, y_, _kind = G.related_pair(rng, gen, drop)
                if rng.random() < 0.5:
                    x_, y_ = y_, x_
                L, Rr = ('i', x_, b), y_
            elif s < 0.5:      # applicable, premises in different notation states
                L, Rr = present(rng, ('i', a, b), drop), present(rng, a, drop)
            elif s < 0.7:      # antecedent mismatch by one subterm
                L, Rr = present(rng, ('i', a, b), drop), present(rng, gen.mutate(a), drop)
            elif s < 0.8:      # implication hidden in / absent from notation: neg(a) = a -> bot, or(a,b) = neg a -> b
                nt = rng.choice([x for x in gen.notations if x.arity >= 1])
                L = nt(*[gen.term(depth - 1) for _ in range(nt.arity)])
                e = G.ref_expand(L, drop)
                Rr = present(rng, e[1], drop) if e[0] == 'i' and rng.random() < 0.7 else gen.term(depth)
            elif s < 0.9:      # not an implication
                L, Rr = gen.term(depth), gen.term(depth)
            else:              # premises swapped
                L, Rr = present(rng, a, drop), present(rng, ('i', a, b), drop)
            op = rng.choice(['MP', 'MP', 'MPS', 'MPX'])
            args = PC.show(L) + ' ' + PC.show(Rr)
        elif c < 0.75:
            x = gen.var()
            l = gen.term(depth)
            s = rng.random()
            if s < 0.12:       # consequent = notation whose definition substitutes ANOTHER variable; x comes in through the plug
                r, x = G.subst_body_case(rng, gen)
            elif s < 0.2:      # consequent = top-level Instantiate where x does not come in through an argument
                r, x = G.open_body_case(rng, gen)
            elif s < 0.45:     # x occurs free in the consequent under k notation layers
                r = wrap_layers(rng, gen, ('e', x), rng.randrange(0, 4))
            elif s < 0.6:      # x bound in the consequent
                r = wrap_layers(rng, gen, ('x', x, ('i', ('e', x), gen.term(1))), rng.randrange(0, 3))
            elif s < 0.9:
                r = gen.term(depth)
            else:
                r = None
            conc = present(rng, ('i', l, r), drop) if r is not None else gen.term(depth)
            op = rng.choice(['GEN', 'GEN', 'GENS'])
            args = f'{PC.show(conc)} {x}'
        else:
            if binders and rng.random() < 0.2:
                # Quantifier-axiom shape: phi_k[plug/x] with phi_k := a notation that binds x, applied to an argument mentioning x
                conc, d, _x = G.subst_under_binder(rng, gen, binders)
            else:
                conc = gen.term(depth)
                d = gen.delta(rng.choice([0, 1, 2])) if rng.random() < 0.9 else ()
            op = rng.choice(['BI', 'BI', 'BIS'])
            args = PC.show(conc) + ' ' + PC.showd(d)
        cases.append(PS.make_case(op, args))
    return cases


def kindfun(c, impl_ans):
    return f'{c.op}:{"raise" if impl_ans == "RAISE" else "returns"}'


def corpus_cases():
    out = []
    d = os.path.join(C.VERIF, 'harness', 'corpus', CID)
    if os.path.isdir(d):
        for fn in sorted(os.listdir(d)):
            if fn.endswith('.json'):
                j = json.load(open(os.path.join(d, fn)))
                out.append(PS.make_case(j['op'], j['args']))
    return out


def run(tier, seed):
    R = C.Report(CID, tier, seed)
    PS.drop_stale_known(R, PS.MY_PROPS)
    rng = C.rng_for(seed, CID)
    n = 12000 if tier == 'quick' else 400000
    P = PS.proof_stage(R)
    proof_broken = not P['ok']
    sides = PS.Sides()
    cfg = PS.expected_config()
    det = sides.detect_config()
    R.notes.append({'expected_config': cfg, 'detected_config': det})
    for fl in PS.FLAGS:
        if det[fl] is True and not cfg[fl]:
            cfg[fl] = True
            R.notes.append(f'finding for {fl} no longer reproduces; model run with the repaired configuration')
    drop = not cfg['f_mv_keep_subst']
    grng = rng

    def gen_fn(k):
        cs = gen_cases(grng, sides, k, drop)
        for c in cs[:6]:
            R.sample(f'{c.op} {c.args[:160]}')
        return cs
    mismatches, nfail, nmis = PS.check_in_batches(R, sides, cfg, CID, corpus_cases(), gen_fn, n if not proof_broken else 3 * n, kindfun=kindfun)
    if mismatches and not nfail:
        grng = C.rng_for(seed, CID + ':search')
        _, nfail, _ = PS.check_in_batches(R, sides, cfg, CID, [], gen_fn, 4 * n, kindfun=kindfun)
    failing = [None] * nfail
    if proof_broken and not R.violations:
        R.violation('proof-broken', 'Coq proof stage failed',
                    {'no_failing_input_found': True, 'theorem_or_correspondence': f'Props/{CID}.v', 'log': P['log']})
    if mismatches and not R.violations:
        R.violation('correspondence-broken', 'model (basic_mp/basic_gen/basic_inst) and the interpreters disagree',
                    {'no_failing_input_found': True,
                     'theorem_or_correspondence': f'correspondence mlref_py vs BasicInterpreter/StatefulInterpreter/ProofExp (configuration {PS.flagstr(cfg)})',
                     'first_mismatches': mismatches[:5]})
    R.notes.append({'tie_mismatches': nmis, 'oracle_failures': nfail})
    R.coverage['rule'] = ('premise pairs for modus ponens (applicable in three notation states, antecedent mutated, implication '
                          'hidden in notation, non-implication, swapped), generalisation premises with the variable free/bound '
                          'under 0-3 notation layers, instantiation with partial/total maps; each through BasicInterpreter and '
                          'StatefulInterpreter (and ProofExp.modus_ponens); distinct = distinct request')
    return R.finish(level='proof', trusted_base=C.TRUSTED_COMMON + [
        'translators/pypattern.py (Python ast -> coq/Gen/PyPattern.v, fail closed; dynamic dispatch = generated recursive call)',
        'harness/impl/pat_runner.py + harness/pycodec.py (term codec), harness/pygen.py reference expansion / freshness (oracle only)',
        'the documented rules (docs/proof-language.md: ModusPonens, Generalization, Instantiate) as transcribed in the theorem statements'])


def replay(path):
    d = json.load(open(path))
    rp = d.get('replay', d)
    if 'op' not in rp:
        print(json.dumps(d, indent=1)[:4000])
        return 0
    sides = PS.Sides()
    cfg = PS.expected_config()
    c = PS.make_case(rp['op'], rp['args'])
    drop = not cfg['f_mv_keep_subst']
    i = sides.impl([c.req])[0]
    print('request        :', c.op, c.args)
    print('implementation :', i)
    print(f'model {PS.flagstr(cfg)}   :', sides.model([c.req], cfg)[0])
    print('model sound    :', sides.model([c.req], PS.SOUND)[0])
    print('documented rule:', c.spec(drop))
    try:
        got = c.post(i, drop)
    except PS.BadAnswer:
        got = i
    ok = (got == c.spec(drop))
    print('HOLDS' if ok else 'VIOLATED')
    return 0 if ok else 1

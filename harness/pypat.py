"""Python side of C06 (freshness judgement) and C11 (substitution / instantiation algebra), called by the lead's
harness/c06.py and harness/c11.py:

    import pypat
    res = pypat.py_side(R, 'C06', tier, seed)      # R: common.Report of the calling check

Runs (1) the correspondence extracted model (ocaml/mlref_py, coq/Py/Pattern.v) <-> proof_generation.pattern for
the operations the property is about, in the configuration the tree is expected to implement, and (2) the
Python-side property oracle (independent of the model: textbook free variables / capture-avoiding substitution
on concrete instantiations, reference expansion).  Calls R.case / R.sample / R.violation; returns a dict
{evaluations, tie_mismatches: [...], oracle_failures, skipped_capture, config}.
Violation signatures: '<cid>:py:<defect id>:<flag>' for failures explained by a recorded defect flag,
'<cid>:py:<op>:unexplained' otherwise.
"""
from __future__ import annotations

import pycodec as PC
import pygen as G
import pyside as PS
import common as C


# ------------------------------------------------------------------------------------------------
# textbook functions on concrete patterns (no metavariables, no pending substitutions, no notation)
# ------------------------------------------------------------------------------------------------

def fv_s(p):
    k = p[0]
    if k == 's':
        return {p[1]}
    if k in 'ey':
        return set()
    if k in 'ia':
        return fv_s(p[1]) | fv_s(p[2])
    if k == 'x':
        return fv_s(p[2])
    if k == 'm':
        return fv_s(p[2]) - {p[1]}
    raise ValueError(p)


class Capture(Exception):
    pass


def tb_esubst(p, x, g):
    """capture-avoiding p[g/x] on concrete patterns; raises Capture where the checker would reject"""
    k = p[0]
    if k == 'e':
        return g if p[1] == x else p
    if k in 'sy':
        return p
    if k in 'ia':
        return (k, tb_esubst(p[1], x, g), tb_esubst(p[2], x, g))
    if k == 'x':
        if p[1] == x or x not in G.fv_e(p[2]):
            return p
        if p[1] in G.fv_e(g):
            raise Capture
        return ('x', p[1], tb_esubst(p[2], x, g))
    if k == 'm':
        if x not in G.fv_e(p[2]):
            return p
        if p[1] in fv_s(g):
            raise Capture
        return ('m', p[1], tb_esubst(p[2], x, g))
    raise ValueError(p)


def tb_ssubst(p, X, g):
    k = p[0]
    if k == 's':
        return g if p[1] == X else p
    if k in 'ey':
        return p
    if k in 'ia':
        return (k, tb_ssubst(p[1], X, g), tb_ssubst(p[2], X, g))
    if k == 'm':
        if p[1] == X or X not in fv_s(p[2]):
            return p
        if p[1] in fv_s(g):
            raise Capture
        return ('m', p[1], tb_ssubst(p[2], X, g))
    if k == 'x':
        if X not in fv_s(p[2]):
            return p
        if p[1] in G.fv_e(g):
            raise Capture
        return ('x', p[1], tb_ssubst(p[2], X, g))
    raise ValueError(p)


def concrete_inst(t, sigma):
    """textbook meaning of the notation-free meta-pattern t under a total concrete sigma (dict id -> concrete)"""
    k = t[0]
    if k in 'esy':
        return t
    if k == 'v':
        return sigma[t[1]]
    if k in 'ia':
        return (k, concrete_inst(t[1], sigma), concrete_inst(t[2], sigma))
    if k in 'xm':
        return (k, t[1], concrete_inst(t[2], sigma))
    if k == 'E':
        return tb_esubst(concrete_inst(t[1], sigma), t[2], concrete_inst(t[3], sigma))
    if k == 'S':
        return tb_ssubst(concrete_inst(t[1], sigma), t[2], concrete_inst(t[3], sigma))
    raise ValueError(t)


def mv_constraints(t, acc=None):
    """id -> (evars that must be fresh, svars that must be fresh/polarity-constrained), over all occurrences"""
    if acc is None:
        acc = {}
    k = t[0]
    if k == 'v':
        e, s = acc.setdefault(t[1], (set(), set()))
        e.update(t[2])
        e.update(t[6])
        s.update(t[3])
        s.update(t[4])
        s.update(t[5])
    elif k in 'ia':
        mv_constraints(t[1], acc)
        mv_constraints(t[2], acc)
    elif k in 'xm':
        mv_constraints(t[2], acc)
    elif k in 'ES':
        mv_constraints(t[1], acc)
        mv_constraints(t[3], acc)
    return acc


def concrete_term(rng, depth, evars, svars, syms=(1, 2, 3)):
    """random concrete pattern whose FREE variables are in evars / svars (bound ones are arbitrary)"""
    if depth <= 0 or rng.random() < 0.2:
        c = rng.random()
        if c < 0.45 and evars:
            return ('e', rng.choice(sorted(evars)))
        if c < 0.7 and svars:
            return ('s', rng.choice(sorted(svars)))
        return ('y', rng.choice(syms))
    k = rng.choice('iiaaxm')
    if k in 'ia':
        return (k, concrete_term(rng, depth - 1, evars, svars), concrete_term(rng, depth - 1, evars, svars))
    v = rng.randrange(3)
    if k == 'x':
        return ('x', v, concrete_term(rng, depth - 1, set(evars) | {v}, svars))
    return ('m', v, concrete_term(rng, depth - 1, evars, set(svars) | {v}))


def random_sigma(rng, t, nvars=3):
    sig = {}
    for i, (e, s) in mv_constraints(t).items():
        sig[i] = concrete_term(rng, rng.choice([0, 1, 2]), set(range(nvars)) - e, set(range(nvars)) - s)
    return sig


# ------------------------------------------------------------------------------------------------

def _setup(R):
    sides = PS.Sides()
    cfg = PS.expected_config()
    det = sides.detect_config()
    for fl in PS.FLAGS:
        if det[fl] is True and not cfg[fl]:
            cfg[fl] = True
    R.notes.append({'py_expected_config': cfg, 'py_detected_config': det})
    return sides, cfg


def _classify(sides, cfg, reqs, holds):
    """per failing request: the defect flag whose repair (alone, or accumulated in FLAGS order) makes
    `holds(model_answer, drop)` true; 'sound-only' / None otherwise"""
    out = [None] * len(reqs)
    off = [fl for fl in PS.FLAGS if not cfg[fl]]
    trials = [(set(), 'implementation-deviates')]
    trials += [({fl}, fl) for fl in off] + [(set(off[:k + 1]), off[k]) for k in range(1, len(off))]
    trials.append((set(PS.FLAGS), 'sound-only'))
    for on, label in trials:
        todo = [j for j in range(len(reqs)) if out[j] is None]
        if not todo:
            break
        c2 = dict(cfg)
        for fl in on:
            c2[fl] = True
        ans = sides.model([reqs[j] for j in todo], c2)
        for j, a in zip(todo, ans):
            try:
                if holds(j, a, not c2['f_mv_keep_subst']):
                    out[j] = label
            except Exception:  # noqa: BLE001
                pass
    return out


def _sig(cid, op, fl):
    if fl in PS.FLAG_DEFECT:
        return f'{cid}:py:{PS.FLAG_DEFECT[fl]}:{fl}'
    return f'{cid}:py:{op}:{fl or "unexplained"}'


def _source_stage(R, cid):
    """regenerate coq/Gen/PyPattern.v from the current source; if it changed (or the translator failed closed) the
    proof stage of the calling check may have used a stale copy: rebuild Props/<cid>.vo now"""
    msg = log = ''
    for _attempt in (1, 2):      # a concurrent check run on another tree may rewrite coq/Gen/PyPattern.v in between: try twice
        ok_tr, msg, changed = PS.regen_pypattern()
        if ok_tr and not changed and _attempt == 1:
            return True, ''
        ok, log = C.coq_make([f'Props/{cid}.vo'])
        if ok_tr and ok:
            # the calling check's proof stage ran BEFORE this regeneration, possibly against a stale Gen/PyPattern.v left
            # by a run on another tree: redo it and update the caller's record in place
            if R.proof is not None and not R.proof.get('ok'):
                fresh = C.prop_check(cid)
                R.proof.clear()
                R.proof.update(fresh)
                R.notes.append('proof stage repeated after coq/Gen/PyPattern.v was regenerated from the current tree')
            return True, ''
        if not ok_tr:
            break
    return False, (msg or log[-1500:])


def py_side(R, cid, tier, seed):
    nv = len(R.violations)
    src_ok, src_msg = _source_stage(R, cid)
    if cid == 'C06':
        res = _c06(R, tier, seed)
    elif cid == 'C11':
        res = _c11(R, tier, seed)
    else:
        raise ValueError(cid)
    R.notes.append({'py_side': {k: (len(v) if isinstance(v, list) else v) for k, v in res.items()}})
    if not src_ok and len(R.violations) == nv:
        R.violation(f'{cid}:py:source-proof-broken',
                    'coq/Gen/PyPattern.v regenerated from the current pattern.py no longer satisfies the agreement / source theorems',
                    {'no_failing_input_found': True, 'theorem_or_correspondence': f'Props/{cid}.v ({cid}_source_py_*), Py/GenPyPatternAgree.v',
                     'log': src_msg})
    if res['tie_mismatches'] and len(R.violations) == nv:
        # the model no longer describes pattern.py and the oracle found nothing: still a violation
        R.violation(f'{cid}:py:correspondence-broken', 'model (coq/Py/Pattern.v) and proof_generation.pattern disagree',
                    {'no_failing_input_found': True,
                     'theorem_or_correspondence': f'correspondence mlref_py vs proof_generation.pattern (configuration {PS.flagstr(res["config"])})',
                     'first_mismatches': res['tie_mismatches'][:5]})
    return res


# ------------------------------------------------------------------------------------------------
# C06: evar_is_free is sound for every constraint-respecting concrete instantiation; notation-invariant
# ------------------------------------------------------------------------------------------------

def _c06(R, tier, seed):
    rng = C.rng_for(seed, 'C06:py')
    sides, cfg = _setup(R)
    drop = not cfg['f_mv_keep_subst']
    n = 8000 if tier == 'quick' else 300000
    gen = G.Gen(rng, notations=[nt for nt in sides.shipped if nt.family in (None, 'forall')])
    for i in range(8):
        gen.notations.append(gen.random_notation(2, f'g{i}'))
    terms, reqs = [], []
    for _ in range(n):
        c = rng.random()
        if c < 0.12:      # definition with a pending substitution on another variable than the queried one
            p, x = G.subst_body_case(rng, gen)
        elif c < 0.2:     # top-level Instantiate where x does not come in through an argument
            p, x = G.open_body_case(rng, gen)
        else:
            p = gen.term(rng.choice([1, 2, 3, 3, 4]), subst=0.2)
            x = gen.var()
        terms.append((p, x))
        reqs.append(('FR', f'{PC.show(p)} {x}'))
    impl = sides.impl(reqs)
    model = sides.model(reqs, cfg)
    mismatches = [dict(op='FR', args=r[1], model=m, impl=i) for r, m, i in zip(reqs, model, impl) if m != i]
    if cfg != PS.SOUND:     # runtime cross-check of Py/Bridge.v on the corner-free inputs
        idx = [j for j, (p, x) in enumerate(terms) if PS.corner_free_inputs([p])]
        R.hist['bridge:corner-free'] = R.hist.get('bridge:corner-free', 0) + len(idx)
        R.hist['bridge:not-corner-free'] = R.hist.get('bridge:not-corner-free', 0) + len(terms) - len(idx)
        for j, a in zip(idx, sides.model([reqs[j] for j in idx], PS.SOUND)):
            if a != model[j]:
                mismatches.append(dict(op='BRIDGE:FR', args=reqs[j][1], model=model[j], impl='flags_sound model: ' + a))
    nsig = 3 if tier == 'quick' else 6

    def judge(j, ans, dr):
        """is answer `ans` for case j acceptable?  (a) equal to the judgement on the reference expansion,
        (b) if 'fresh': x is not free in any sampled constraint-respecting concrete instantiation"""
        p, x = terms[j]
        e = G.ref_expand(p, dr)
        if (ans == '1') != G.ref_fresh(e, x):
            return False
        if ans == '1':
            r2 = C.rng_for(seed, f'C06:sigma:{j}')
            for _ in range(nsig):
                try:
                    c = concrete_inst(e, random_sigma(r2, e))
                except Capture:
                    continue
                if x in G.fv_e(c):
                    return False
        return True
    failing = []
    for j, ((p, x), ans) in enumerate(zip(terms, impl)):
        R.case(reqs[j], PC.has_kind(p, 'IESv'), 'py-fresh:' + ('fresh' if ans == '1' else 'not-fresh' if ans == '0' else 'error'))
        if ans not in ('0', '1') or not judge(j, ans, drop):
            failing.append(j)
    for j in range(min(3, len(reqs))):
        R.sample(f'FR {reqs[j][1][:150]}')
    if failing:
        labels = _classify(sides, cfg, [reqs[j] for j in failing], lambda k, a, dr: judge(failing[k], a, dr))
        seen = set()
        for j, fl in zip(failing, labels):
            sig = _sig('C06', 'evar_is_free', fl)
            R.hist['py-fail:' + sig] = R.hist.get('py-fail:' + sig, 0) + 1
            if sig not in seen:
                seen.add(sig)
                p, x = terms[j]
                R.violation(sig, f'Python evar_is_free({x}) answers {impl[j]} on a pattern whose expansion / concrete instances say otherwise',
                            dict(op='FR', args=reqs[j][1], implementation=impl[j],
                                 expansion=PC.show(G.ref_expand(p, drop)), expected='1' if G.ref_fresh(G.ref_expand(p, drop), x) else '0'))
    # ---- second judgement probe: the side condition of exists_generalization (BasicInterpreter and
    #      StatefulInterpreter): accepting a generalisation over x IS judging x fresh in the consequent
    greqs, gterms = [], []
    for _ in range(n // 2):
        c = rng.random()
        l = gen.term(rng.choice([0, 1, 2]))
        if c < 0.2:
            r, x = G.subst_body_case(rng, gen)
        elif c < 0.45:
            r, x = G.open_body_case(rng, gen)
        elif c < 0.7:     # x free / bound under notation layers
            x = gen.var()
            r = ('e', x) if rng.random() < 0.6 else ('x', x, ('i', ('e', x), gen.term(1)))
            for _k in range(rng.randrange(0, 4)):
                nt = rng.choice([t for t in gen.notations if t.arity >= 1])
                a_ = [gen.term(1) for _j in range(nt.arity)]
                a_[rng.randrange(nt.arity)] = r
                r = nt(*a_)
        else:
            r, x = gen.term(rng.choice([1, 2, 3]), subst=0.2), gen.var()
        conc = ('i', l, r) if rng.random() < 0.7 else G.partial_unfold(rng, ('i', l, r), 0.5, drop)
        gterms.append((conc, x))
        greqs.append((rng.choice(['GEN', 'GENS']), f'{PC.show(conc)} {x}'))
    gimpl = sides.impl(greqs)
    gmodel = sides.model(greqs, cfg)
    mismatches += [dict(op=r[0], args=r[1], model=m, impl=i) for r, m, i in zip(greqs, gmodel, gimpl) if m != i]
    gcases = [PS.make_case(*r) for r in greqs]

    def gjudge(j, ans, dr):
        """accept/refuse must be the documented rule on the expansion; an accepted generalisation must be sound on
        sampled constraint-respecting concrete instances of the consequent"""
        c = gcases[j]
        try:
            if c.post(ans, dr) != c.spec(dr):
                return False
        except PS.BadAnswer:
            return False
        if ans != 'RAISE':
            conc, x = gterms[j]
            e = G.ref_expand(conc, dr)
            r2 = C.rng_for(seed, f'C06:gsigma:{j}')
            for _ in range(nsig):
                try:
                    cinst = concrete_inst(e[2], random_sigma(r2, e[2]))
                except Capture:
                    continue
                if x in G.fv_e(cinst):
                    return False
        return True
    gfail = []
    for j, ans in enumerate(gimpl):
        R.case(greqs[j], True, 'py-generalization:' + ('refused' if ans == 'RAISE' else 'accepted'))
        if not gjudge(j, ans, drop):
            gfail.append(j)
    if gfail:
        labels = _classify(sides, cfg, [greqs[j] for j in gfail], lambda k, a, dr: gjudge(gfail[k], a, dr))
        seen = set()
        for j, fl in zip(gfail, labels):
            sig = _sig('C06', 'exists_generalization', fl)
            R.hist['py-fail:' + sig] = R.hist.get('py-fail:' + sig, 0) + 1
            if sig not in seen:
                seen.add(sig)
                conc, x = gterms[j]
                R.violation(sig, f'exists_generalization over x{x} answers {gimpl[j][:60]!r}: the side condition judges x{x} '
                                 'fresh in a consequent whose expansion / concrete instances say otherwise (or refuses a fresh one)',
                            dict(op=greqs[j][0], args=greqs[j][1], implementation=gimpl[j],
                                 expected=repr(gcases[j].spec(drop))[:1000]))
    return dict(evaluations=len(reqs) + len(greqs), tie_mismatches=mismatches,
                oracle_failures=len(failing) + len(gfail), config=cfg)


# ------------------------------------------------------------------------------------------------
# C11: substitution / instantiation algebra on the Python side
# ------------------------------------------------------------------------------------------------

def _c11(R, tier, seed):
    rng = C.rng_for(seed, 'C11:py')
    sides, cfg = _setup(R)
    drop = not cfg['f_mv_keep_subst']
    n = 9000 if tier == 'quick' else 300000
    gen = G.Gen(rng, notations=[nt for nt in sides.shipped if nt.family in (None, 'forall')])
    for i in range(8):
        gen.notations.append(gen.random_notation(2, f'g{i}'))
    E = G.ref_expand
    binders = G.binder_notations(gen.notations)

    # (a) tie + transparency/reference semantics of single operations (same oracles as C12: the result, expanded,
    #     is the reference operation on the expansion), on patterns with and without notation
    cases = []
    for _ in range(n):
        depth = rng.choice([1, 2, 2, 3, 3])
        notation = rng.choice([0.0, 0.3])
        p = gen.term(depth, notation=notation, subst=0.2, raw_inst=0.06 if notation else 0.0)
        op = rng.choice(['I', 'I', 'ES', 'SS'])
        if op == 'I' and binders and rng.random() < 0.12:
            prem, d, _x = G.subst_under_binder(rng, gen, binders)
            args = PC.show(prem) + ' ' + PC.showd(d)
        elif op == 'ES' and binders and rng.random() < 0.2:
            nt, x = rng.choice(binders)
            p = nt(*[('a', ('y', rng.choice(gen.syms)), ('e', x)) if rng.random() < 0.7 else gen.term(1) for _ in range(nt.arity)])
            args = f'{PC.show(p)} {x} {PC.show(gen.term(1))}'
        elif op == 'I':
            d = gen.delta(rng.choice([0, 1, 2]), notation=notation)     # partial and total maps, values mention metavariables
            args = PC.show(p) + ' ' + PC.showd(d)
        else:
            args = f'{PC.show(p)} {gen.var()} {PC.show(gen.term(max(0, depth - 1), notation=notation))}'
        cases.append(PS.make_case(op, args))
    mism1, fail1 = PS.check_cases(R, sides, cases, cfg, 'C11:py')

    # (b) textbook agreement on concrete, capture-free inputs; identity when the variable does not occur
    reqs, expect = [], []
    skipped = 0
    for _ in range(n // 3):
        p = concrete_term(rng, rng.choice([1, 2, 3]), {0, 1, 2}, {0, 1, 2})
        g = concrete_term(rng, rng.choice([0, 1, 2]), {0, 1, 2}, {0, 1, 2})
        x = rng.randrange(3)
        op = rng.choice(['ES', 'SS'])
        try:
            want = tb_esubst(p, x, g) if op == 'ES' else tb_ssubst(p, x, g)
        except Capture:
            skipped += 1          # D9c: Python has no capture check; the law is stated for capture-free inputs
            continue
        reqs.append((op, f'{PC.show(p)} {x} {PC.show(g)}'))
        expect.append(PC.show(want))
    # instantiation resolves pending substitutions: phi[g/x] under phi := concrete  ==  textbook concrete[g/x]
    for _ in range(n // 3):
        c = concrete_term(rng, rng.choice([1, 2]), {0, 1, 2}, {0, 1, 2})
        g = concrete_term(rng, rng.choice([0, 1]), {0, 1, 2}, {0, 1, 2})
        x = rng.randrange(3)
        kind = rng.choice('ES')
        try:
            want = tb_esubst(c, x, g) if kind == 'E' else tb_ssubst(c, x, g)
        except Capture:
            skipped += 1
            continue
        body = (kind, PC.mv(0), x, g if rng.random() < 0.5 else PC.mv(1))
        d = ((0, c), (1, g))
        reqs.append(('I', PC.show(('i', body, PC.mv(0))) + ' ' + PC.showd(d)))
        expect.append(PC.show(('i', want, c)))
    impl = sides.impl(reqs)
    model = sides.model(reqs, cfg)
    mism2 = [dict(op=r[0], args=r[1], model=m, impl=i) for r, m, i in zip(reqs, model, impl) if m != i]
    fail2 = []
    for j, (r, a, w) in enumerate(zip(reqs, impl, expect)):
        R.case(r, True, 'py-textbook:' + r[0])
        if a != w:
            fail2.append(j)
    if fail2:
        labels = _classify(sides, cfg, [reqs[j] for j in fail2], lambda k, a, dr: a == expect[fail2[k]])
        seen = set()
        for j, fl in zip(fail2, labels):
            sig = _sig('C11', reqs[j][0], fl)
            if sig not in seen:
                seen.add(sig)
                R.violation(sig, 'Python substitution/instantiation disagrees with the textbook capture-avoiding substitution on a capture-free input',
                            dict(op=reqs[j][0], args=reqs[j][1], implementation=impl[j], expected=expect[j]))

    # (c) composition: instantiating twice == instantiating once with the composed map (through expansions)
    trip = []
    for _ in range(n // 3):
        p = gen.term(rng.choice([1, 2, 3]), subst=0.15)
        d1 = gen.delta(1)
        d2 = gen.delta(1)
        trip.append((p, d1, d2))
    step1 = sides.impl([('I', PC.show(p) + ' ' + PC.showd(d1)) for p, d1, _ in trip])

    def parses(a):
        try:
            PC.parse(a)
            return True
        except Exception:  # noqa: BLE001
            return False
    ok_idx = [j for j, a in enumerate(step1) if parses(a)]
    step2 = sides.impl([('I', step1[j] + ' ' + PC.showd(trip[j][2])) for j in ok_idx])
    comp_fail = []      # (request of the step that fails its single-step oracle, or the composed description)
    for j, a2 in zip(ok_idx, step2):
        p, d1, d2 = trip[j]
        keys1 = {k for k, _ in d1}
        e1 = {k: E(v, drop) for k, v in d1}
        e2 = {k: E(v, drop) for k, v in d2}
        comp = {k: G.ref_inst(v, e2, drop) for k, v in e1.items()}
        comp.update({k: v for k, v in e2.items() if k not in keys1})
        want_once = G.ref_inst(E(p, drop), comp, drop)
        want_twice = G.ref_inst(G.ref_inst(E(p, drop), e1, drop), e2, drop)
        R.case(('compose', PC.show(p), PC.showd(d1), PC.showd(d2)), True,
               'py-compose:' + ('law-holds-in-reference' if want_once == want_twice else 'law-not-applicable(drop)'))
        got = E(PC.parse(a2), drop) if parses(a2) else None
        if got != want_twice or (want_once == want_twice and got != want_once):
            c1 = PS.make_case('I', PC.show(p) + ' ' + PC.showd(d1))
            ok1 = False
            try:
                ok1 = c1.post(step1[j], drop) == c1.spec(drop)
            except PS.BadAnswer:
                pass
            comp_fail.append(('I', PC.show(p) + ' ' + PC.showd(d1)) if not ok1 else ('I', step1[j] + ' ' + PC.showd(d2)))
    if comp_fail:
        casesA = [PS.make_case(*r) for r in comp_fail]
        labels = _classify(sides, cfg, comp_fail, lambda k, a, dr: casesA[k].post(a, dr) == casesA[k].spec(dr))
        seen = set()
        for r, fl in zip(comp_fail, labels):
            sig = _sig('C11', 'compose', fl)
            if sig not in seen:
                seen.add(sig)
                R.violation(sig, 'instantiate(d1) then instantiate(d2) differs from instantiating once with the composed map: '
                                 'this single step is not the reference instantiation of the expansion',
                            dict(op=r[0], args=r[1], implementation=sides.impl([r])[0]))
    return dict(evaluations=len(cases) + len(reqs) + len(trip), tie_mismatches=mism1 + mism2,
                oracle_failures=len(fail1) + len(fail2) + len(comp_fail), skipped_capture=skipped, config=cfg)
